import PoseVerif.Proofs.C10Lemmas
/-!
# C10 — masked tensors keep values and validity aligned under every operation

`runMasked` is what the Python classes do (each operation applied to the value tensor and to the mask separately); `runRef` runs the same
program on ONE tensor of `(value, valid)` pairs — the "direct reference" in which misalignment is impossible by construction.
`run_refines`: they agree on every program (any length), every shape, every mask, every scalar type and every interpretation of the arithmetic
(no law assumed) — with the one exception recorded as known finding K1: `matmul` by a non-square matrix, for which the negation is proved on a witness.
-/
namespace PoseVerif.Props.C10
open PoseVerif
variable {S : Type}
end PoseVerif.Props.C10
namespace PoseVerif.Props.C10
open PoseVerif
variable {S : Type}
end PoseVerif.Props.C10
namespace PoseVerif.Props.C10
open PoseVerif
variable {S : Type}
/-- **Every program**: the pair interpreter and the reference interpreter produce the same register file (zipped), of the same length, and stop at the same
    instruction — for programs of any length. -/
theorem run_refines (sc : Scalar S) [Inhabited S] (fw : Framework) (prog : List (Instr S)) (env : List (MT S)) (henv : ∀ x ∈ env, Inv x)
    (hsq : ∀ ins ∈ prog, ∀ r m, ins = .matmul r m → squareMat m = true) :
    (∀ x ∈ (runMasked sc fw prog env).1, Inv x) ∧
    runRefAll sc fw prog (env.map zipMT) = (((runMasked sc fw prog env).1).map zipMT, (runMasked sc fw prog env).2) := by
  induction prog generalizing env with
  | nil => exact ⟨henv, rfl⟩
  | cons ins rest ih =>
    have hstep := step_refines sc fw env henv ins (hsq ins (by simp))
    simp only [runMasked, runRefAll]
    cases hs : stepMasked sc fw env ins with
    | none =>
      rw [hs] at hstep
      simp only [hstep]
      exact ⟨henv, trivial⟩
    | some r =>
      rw [hs] at hstep
      obtain ⟨hr, href⟩ := hstep
      simp only [href]
      have henv' : ∀ x ∈ env ++ [r], Inv x := by
        intro x hx
        rcases List.mem_append.mp hx with h | h
        · exact henv x h
        · simp at h; subst h; exact hr
      have := ih (env ++ [r]) henv' (fun i hi => hsq i (by simp [hi]))
      simpa [List.map_append] using this

end PoseVerif.Props.C10
namespace PoseVerif.Props.C10
open PoseVerif
variable {S : Type}
/-- Corollary: after any program without non-square `matmul`, every register has identical value and mask shapes. -/
theorem shapes_identical (sc : Scalar S) [Inhabited S] (fw : Framework) (prog : List (Instr S)) (env : List (MT S)) (henv : ∀ x ∈ env, Inv x)
    (hsq : ∀ ins ∈ prog, ∀ r m, ins = .matmul r m → squareMat m = true) :
    ∀ x ∈ (runMasked sc fw prog env).1, x.tensor.shape = x.mask.shape ∧ x.tensor.data.length = x.mask.data.length :=
  fun x hx => ((run_refines sc fw prog env henv hsq).1 x hx).1

/-- An elementwise result is valid exactly when all its operands are. -/
theorem elementwise_valid_iff (sc : Scalar S) (op : BinOp) (a b : MT S) (i : Nat)
    (h : i < (T.zipWith (· && ·) a.mask b.mask).data.length) :
    (T.zipWith (· && ·) a.mask b.mask).data[i] = true ↔
      a.mask.data[i]'(by simp [T.zipWith] at h; omega) = true ∧ b.mask.data[i]'(by simp [T.zipWith] at h; omega) = true := by
  simp [T.zipWith]

/-- A strict sum is valid only when every summed element is. -/
theorem strict_sum_valid_iff (m : T Bool) (g : List Nat) : (g.all fun i => m.data.getD i false) = true ↔ ∀ i ∈ g, m.data.getD i false = true := by
  simp

/-- Mask-aware mean: valid exactly where at least one element of the group is valid. -/
theorem mean_valid_iff (m : T Bool) (g : List Nat) : ((g.filter fun i => m.data.getD i false).length != 0) = true ↔ ∃ i ∈ g, m.data.getD i false = true := by
  simp [List.filter_eq_nil_iff]

/-- Mask-aware mean uses only valid elements: it is computed from the zero-filled values, and zero-filling is exact (no arithmetic on the masked value). -/
theorem zero_filled_exact (sc : Scalar S) (v : T S) (m : T Bool) (i : Nat) (hv : i < v.data.length) (hm : i < m.data.length) (h : m.data[i] = false) :
    (zeroFilled sc v m).data[i]'(by simp [zeroFilled, T.zipWith]; omega) = sc.zero := by
  simp [zeroFilled, T.zipWith, h]

/-- The interpreter only appends: after ANY program every earlier register — the inputs included — is still in the register file, at the same
    index, with the same value tensor and mask. (What the real classes must match: no operation may change its operand or any earlier value;
    the correspondence check dumps every register a second time after the whole program.) -/
theorem run_append_only (sc : Scalar S) [Inhabited S] (fw : Framework) (prog : List (Instr S)) (env : List (MT S)) :
    ∃ rs, (runMasked sc fw prog env).1 = env ++ rs ∧ rs.length ≤ prog.length := by
  induction prog generalizing env with
  | nil => exact ⟨[], by simp [runMasked]⟩
  | cons ins rest ih =>
    unfold runMasked
    cases h : stepMasked sc fw env ins with
    | none => exact ⟨[], by simp⟩
    | some r =>
      obtain ⟨rs, hrs, hl⟩ := ih (env ++ [r])
      exact ⟨r :: rs, by simp [hrs], by simp; omega⟩

theorem run_keeps_register (sc : Scalar S) [Inhabited S] (fw : Framework) (prog : List (Instr S)) (env : List (MT S)) (i : Nat) (hi : i < env.length) :
    (runMasked sc fw prog env).1[i]? = env[i]? := by
  obtain ⟨rs, h, _⟩ := run_append_only sc fw prog env
  rw [h, List.getElem?_append_left hi]

example : (stepMasked natScalar .torch [k1Input] (.matmul 0 k1Matrix)).map (fun r => (r.tensor.shape, r.mask.shape)) = some ([2, 5], [2, 3]) := by decide
/-- with a square matrix the same call is aligned -/
example : (stepMasked natScalar .torch [k1Input] (.matmul 0 ⟨[3, 3], List.replicate 9 1⟩)).map (fun r => (r.tensor.shape, r.mask.shape, r.tensor.data)) = some ([2, 3], [2, 3], [6, 6, 6, 15, 15, 15]) := by decide

example : (runMasked natScalar .torch demoProg [k1Input]).2 = true ∧ ((runMasked natScalar .torch demoProg [k1Input]).1.map fun r => (r.tensor.shape, r.mask.shape))
    = [([2, 3], [2, 3]), ([3, 2], [3, 2]), ([2], [2]), ([2], [2]), ([2, 2], [2, 2]), ([2, 2], [2, 2])] := by decide

end PoseVerif.Props.C10
