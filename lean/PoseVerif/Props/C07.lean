import PoseVerif.Props.C01
import PoseVerif.Proofs.Trunc
import PoseVerif.Proofs.StreamRev
import PoseVerif.Proofs.StreamWarm
import PoseVerif.Proofs.Window3
/-!
# C07 — a truncated file is never mistaken for a valid pose (full reads from bytes and streams; windowed stream reads of a prefix)
-/
namespace PoseVerif.Props.C07
open PoseVerif

/-- Every crash point: if only a proper prefix of a written file exists, a full read of it raises. -/
theorem truncated_rejected (p : Pose) (hf : p.body.Fits p.header) (b : Bytes) (h : p.write? = some b)
    (n : Nat) (hn : n < b.length) : readFull (b.take n) = none :=
  PoseVerif.truncated_rejected p hf b h n hn

/-- Bytes appended after a complete file do not change what is read. -/
theorem trailing_ignored (p : Pose) (hf : p.body.Fits p.header) (b extra : Bytes) (h : p.write? = some b) :
    readFull (b ++ extra) = readFull b := by
  obtain ⟨w, c, _, h1⟩ := runBR_rdPose_write p hf b extra h
  obtain ⟨w', c', _, h2⟩ := runBR_rdPose_write p hf b [] h
  rw [List.append_nil] at h2
  have : w = w' := by simp_all
  subst this
  simp [readFull, h1, h2]

/-- More generally, for any file a full read accepts as v0.2. -/
theorem trailing_ignored_any (f extra : Bytes) (p : Pose) (hr : readFull f = some p) (hv : versionClass p.header.version = .v02) :
    readFull (f ++ extra) = some p :=
  trailing_ignored_v02 f extra p hr hv

/-! non-vacuity: every proper prefix of the sample file (79 bytes) is rejected — also directly by evaluation -/
example : ∀ n ∈ List.range 79, (C01.samplePose.write?.bind fun b => readFull (b.take n)) = none := by decide +kernel

/-! ### the windowed stream clause -/

/-- **A windowed stream read of a proper prefix either raises or returns exactly what the intact file returns for that window** (cold cache):
    whenever `Pose.read(BytesIO(prefix), window)` returns, its result is the one a read of the complete bytes with the same window returns. -/
theorem truncated_window_stream (b : Bytes) (n : Nat) (w : Window) (q q' : Pose) (c c' : Option CacheEntry) (s : SR)
    (hs : readStream (b.take n) none w = some ((q, c), s)) (hb : readBytes b none w = some (q', c'))
    (hv : versionClass q'.header.version = .v02) : q = q' ∧ c = c' := by
  have hb' : readBytes (b.take n ++ b.drop n) none w = some (q', c') := by rw [List.take_append_drop]; exact hb
  exact prefix_stream_agrees (b.take n) (b.drop n) w q q' c c' s hs hb' hv

/-- … in particular, for a valid window of a file that a full read accepts as v0.2, a prefix read that returns returns the slice `[start, start + count)` of the full pose -/
theorem truncated_window_stream_slice (file : Bytes) (n : Nat) (w : Window) (p : Pose) (fps : F32) (se : Option Int × Option Int)
    (hfull : readFull file = some p) (hv02 : versionClass p.header.version = .v02) (hfps : p.body.fps = .f32 fps)
    (hc : w.conflict = false) (hres : w.resolve fps = some se) (hvw : WinValid p.body.frames se.1 se.2)
    (q : Pose) (c : Option CacheEntry) (s : SR) (hs : readStream (file.take n) none w = some ((q, c), s)) :
    q = ⟨p.header, p.body.slice (winStart se.1) (winCount p.body.frames se.1 se.2)⟩ := by
  obtain ⟨c', hb⟩ := readBytes_window file w p fps se hfull hv02 hfps hc hres hvw
  exact (truncated_window_stream file n w q _ c c' s hs hb hv02).1

/-- **The windowed stream clause in full.** For a file that a full read accepts as v0.2, ANY prefix of it (`b.take n`), ANY window and ANY consistent state of the
    header cache (`CacheOK`: what reads leave there — `cache_stays_ok` below): if the windowed stream read of the prefix returns, then the read of the intact bytes
    with the same window and cache returns, and returns the same pose and the same cache entry. So the prefix read either raises or returns exactly what the intact
    file would have returned for that window — and where the intact read itself raises (conflicting bounds, a start at or beyond the last frame) the prefix read raises. -/
theorem truncated_window_stream_complete (b : Bytes) (n : Nat) (w : Window) (cache : Option CacheEntry) (hok : ∀ cc, cache = some cc → CacheOK cc)
    (p : Pose) (hfull : readFull b = some p) (hv02 : versionClass p.header.version = .v02)
    (q : Pose) (c : Option CacheEntry) (s : SR) (hs : readStream (b.take n) cache w = some ((q, c), s)) :
    readBytes b cache w = some (q, c) := by
  have := prefix_stream_complete (b.take n) (b.drop n) w cache hok p (by rw [List.take_append_drop]; exact hfull) hv02 q c s hs
  rwa [List.take_append_drop] at this

/-- the same agreement stated two-sidedly (any extension of the prefix, any cache state): whenever both reads return they return the same -/
theorem truncated_window_stream_any_cache (b : Bytes) (n : Nat) (w : Window) (cache : Option CacheEntry) (hok : ∀ cc, cache = some cc → CacheOK cc)
    (q q' : Pose) (c c' : Option CacheEntry) (s : SR)
    (hs : readStream (b.take n) cache w = some ((q, c), s)) (hb : readBytes b cache w = some (q', c'))
    (hv : versionClass q'.header.version = .v02) : q = q' ∧ c = c' := by
  have hb' : readBytes (b.take n ++ b.drop n) cache w = some (q', c') := by rw [List.take_append_drop]; exact hb
  exact prefix_stream_agrees_cache (b.take n) (b.drop n) w cache hok q q' c c' s hs hb' hv

/-- the cache hypothesis is the invariant reads maintain: an empty cache satisfies it, and whatever entry a read leaves behind satisfies it again -/
theorem cache_stays_ok (file : Bytes) (cache : Option CacheEntry) (hok : ∀ cc, cache = some cc → CacheOK cc) (w : Window) (p : Pose) (c : Option CacheEntry)
    (h : readBytes file cache w = some (p, c)) : ∀ cc, c = some cc → CacheOK cc :=
  read_leaves_ok file cache hok w p c h

/-- a stream without window bounds is read into a `BufferReader` first: every proper prefix of a written file is rejected through that route as well -/
theorem truncated_rejected_stream_full (p : Pose) (hf : p.body.Fits p.header) (b : Bytes) (h : p.write? = some b) (n : Nat) (hn : n < b.length) :
    (readSource (b.take n) none {}).map (·.1) = none := by
  have := truncated_rejected p hf b h n hn
  simp only [readFull, Option.map_eq_none_iff] at this
  simp [readSource, Window.given, readBytes, this]

/-! non-vacuity of the stream clause: a two-frame file, window [0, 1) — a prefix that lacks the last 5 bytes still serves the window, identically; one that lacks 30 raises -/
def twoFrames : Pose :=
  { header := { version := 0, width := 6, height := 4, depth := 0,
                comps := [{ name := "c", format := "XYC", points := ["a", "b"], limbs := [(0, 1)], colors := [(1, 2, 3)] }] },
    body := { fps := .f32 0x41C80000, frames := 2, people := 1, points := 2, dims := 2,
              data := [1, 2, 3, 4, 5, 6, 7, 8], conf := [0x3F800000, 0, 0x3F800000, 0x3F800000], missing := [] } }
def win01 : Window := { startFrame := some 0, endFrame := some 1 }
example : (twoFrames.write?.bind fun b => (readStream (b.take (b.length - 5)) none win01).map (·.1.1)) =
    (twoFrames.write?.bind fun b => (readBytes b none win01).map (·.1)) := by decide +kernel
example : (twoFrames.write?.bind fun b => (readStream (b.take (b.length - 30)) none win01).map (·.1.1)) = none := by decide +kernel

/-- warm cache: the same two prefixes, read with the cache already holding this file's header (left there by a full read) -/
example : (twoFrames.write?.bind fun b => (readBytes b none {}).bind fun r => (readStream (b.take (b.length - 5)) r.2 win01).map (·.1.1)) =
    (twoFrames.write?.bind fun b => (readBytes b none win01).map (·.1)) := by decide +kernel
example : (twoFrames.write?.bind fun b => (readBytes b none {}).bind fun r => (readStream (b.take (b.length - 30)) r.2 win01).map (·.1.1)) = none := by decide +kernel

/-! ### trailing bytes under a window -/

/-- **Trailing bytes and windows.** For a file a full read accepts as v0.2 and any valid window, bytes appended after the file change nothing about the
    pose a windowed read returns: it is the same slice of the same pose. -/
theorem trailing_ignored_window (f extra : Bytes) (w : Window) (p : Pose) (fps : F32) (se : Option Int × Option Int)
    (hfull : readFull f = some p) (hv02 : versionClass p.header.version = .v02) (hfps : p.body.fps = .f32 fps)
    (hc : w.conflict = false) (hres : w.resolve fps = some se) (hvw : WinValid p.body.frames se.1 se.2) :
    (readBytes (f ++ extra) none w).map (·.1) = (readBytes f none w).map (·.1) := by
  obtain ⟨c1, h1⟩ := readBytes_window f w p fps se hfull hv02 hfps hc hres hvw
  obtain ⟨c2, h2⟩ := readBytes_window (f ++ extra) w p fps se (trailing_ignored_v02 f extra p hfull hv02) hv02 hfps hc hres hvw
  simp [h1, h2]

example : (twoFrames.write?.bind fun b => (readBytes (b ++ [1, 2, 3]) none win01).map (·.1)) =
    (twoFrames.write?.bind fun b => (readBytes b none win01).map (·.1)) := by decide +kernel
end PoseVerif.Props.C07
