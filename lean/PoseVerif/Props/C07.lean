import PoseVerif.Props.C01
import PoseVerif.Proofs.Trunc
/-!
# C07 — a truncated file is never mistaken for a valid pose (full reads; the windowed stream clause is in `C07Stream`)
-/
namespace PoseVerif.Props.C07
open PoseVerif

/-- Every crash point: if only a proper prefix of a written file exists, a full read of it raises. -/
theorem truncated_rejected (p : Pose) (hf : p.body.Fits p.header) (b : Bytes) (h : p.write? = some b)
    (n : Nat) (hn : n < b.length) : readFull (b.take n) = none :=
  PoseVerif.truncated_rejected p hf b h n hn

/-- Bytes appended after a complete file do not change what is read. -/
theorem trailing_ignored (p : Pose) (hf : p.body.Fits p.header) (b extra : Bytes) (h : p.write? = some b) :
    readFull (b ++ extra) = readFull b := by
  obtain ⟨w, c, _, h1⟩ := runBR_rdPose_write p hf b extra h
  obtain ⟨w', c', _, h2⟩ := runBR_rdPose_write p hf b [] h
  rw [List.append_nil] at h2
  have : w = w' := by simp_all
  subst this
  simp [readFull, h1, h2]

/-- More generally, for any file a full read accepts as v0.2. -/
theorem trailing_ignored_any (f extra : Bytes) (p : Pose) (hr : readFull f = some p) (hv : versionClass p.header.version = .v02) :
    readFull (f ++ extra) = some p :=
  trailing_ignored_v02 f extra p hr hv

/-! non-vacuity: every proper prefix of the sample file (79 bytes) is rejected — also directly by evaluation -/
example : ∀ n ∈ List.range 79, (C01.samplePose.write?.bind fun b => readFull (b.take n)) = none := by decide +kernel

end PoseVerif.Props.C07
