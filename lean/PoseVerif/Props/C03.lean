import PoseVerif.Proofs.Window4
/-!
# C03 — a frame or time window read equals the same slice of a full read

`readBytes file cache w` models `Pose.read(file_bytes, **w)` (BufferReader), `readStream file cache w` models
`Pose.read(BytesIO(file), **w)` when a window bound is given (BytesIOReader), both starting from header-cache state `cache`.
`Window.resolve` is the time→frame map (`floor`/`ceil` of `t/1000·fps` in binary64; evaluated with `Float`, abstract here:
the theorems hold for whatever frames it yields). `WinValid F s e` is "not (start > 0 and start ≥ F), and the window is not of
negative length"; `winStart`/`winCount` are the first frame and the number of frames `[start, min(end, F))`.
-/
namespace PoseVerif.Props.C03
open PoseVerif

/-- Window = slice, byte-string source: same header, same fps, and frames `[start, min(end, total))` of the coordinates, confidences and
    missing pattern of the full read. -/
theorem window_eq_slice (file : Bytes) (w : Window) (p : Pose) (fps : F32) (se : Option Int × Option Int)
    (hfull : readFull file = some p) (hv02 : versionClass p.header.version = .v02) (hfps : p.body.fps = .f32 fps)
    (hc : w.conflict = false) (hres : w.resolve fps = some se) (hv : WinValid p.body.frames se.1 se.2) :
    ∃ c, readBytes file none w = some (⟨p.header, p.body.slice (winStart se.1) (winCount p.body.frames se.1 se.2)⟩, c) :=
  readBytes_window file w p fps se hfull hv02 hfps hc hres hv

/-- Stream = bytes: whatever a byte-string read returns (pose and new cache), a stream read of the same file with the same arguments and
    the same cache state returns — for every file size relative to the prefetch, every window, every cache content (any version). -/
theorem stream_eq_bytes (file : Bytes) (cache : Option CacheEntry) (w : Window) (p : Pose) (c : Option CacheEntry)
    (h : readBytes file cache w = some (p, c)) : ∃ s, readStream file cache w = some ((p, c), s) :=
  stream_of_bytes file cache w p c h

/-- Window = slice, stream source. -/
theorem stream_window_eq_slice (file : Bytes) (w : Window) (p : Pose) (fps : F32) (se : Option Int × Option Int)
    (hfull : readFull file = some p) (hv02 : versionClass p.header.version = .v02) (hfps : p.body.fps = .f32 fps)
    (hc : w.conflict = false) (hres : w.resolve fps = some se) (hv : WinValid p.body.frames se.1 se.2) :
    ∃ c s, readStream file none w = some ((⟨p.header, p.body.slice (winStart se.1) (winCount p.body.frames se.1 se.2)⟩, c), s) := by
  obtain ⟨c, h⟩ := window_eq_slice file w p fps se hfull hv02 hfps hc hres hv
  obtain ⟨s, hs⟩ := stream_eq_bytes file none w _ c h
  exact ⟨c, s, hs⟩

/-- The slice really is frames `[start, start + count)`: its frame count, and each block as a sub-list of the full read. -/
theorem slice_spec (b : Body) (st n : Nat) :
    (b.slice st n).frames = n ∧ (b.slice st n).fps = b.fps ∧
    (b.slice st n).data = (b.data.drop (st * (b.people * b.points * b.dims))).take (n * (b.people * b.points * b.dims)) ∧
    (b.slice st n).conf = (b.conf.drop (st * (b.people * b.points))).take (n * (b.people * b.points)) ∧
    (b.slice st n).missing = (b.missing.drop (st * (b.people * b.points))).take (n * (b.people * b.points)) :=
  ⟨rfl, rfl, rfl, rfl, rfl⟩

/-- `[start, min(end, total))`: the window arithmetic for `0 ≤ start ≤ end`. -/
theorem window_count (F : Nat) (s e : Nat) (hse : s ≤ e) :
    winStart (some (s : Int)) = s ∧ winCount F (some (s : Int)) (some (e : Int)) = min e F - s := by
  refine ⟨winStart_natCast s, ?_⟩
  unfold winCount
  rw [winStart_natCast, winRem_natCast]
  simp only [Option.getD_some]
  omega

/-- With the cache holding anything an earlier read may have stored (this file's header, or another file's), the result is the one obtained with an empty cache. -/
theorem cache_neutral (c : CacheEntry) (hc : CacheOK c) (file : Bytes) (w : Window) (p : Pose) (c1 : Option CacheEntry)
    (hr : readBytes file (some c) w = some (p, c1)) : ∃ c2, readBytes file none w = some (p, c2) :=
  readBytes_cache_neutral c hc file w p c1 hr

/-- Giving both a time and a frame bound for the same end: the v0.2 body decoder is the failing program, whichever reader runs it. -/
theorem conflicting_bounds_rejected (h : Header) (w : Window) (hc : w.conflict = true) : rdBodyV02 h w = .fail :=
  rdBodyV02_conflict h w hc

/-- A start at or beyond the last frame (or an end before the start): the block reader is the failing program, whichever reader runs it. -/
theorem start_beyond_end_rejected (frames row : Nat) (s e : Option Int) (hv : ¬ WinValid frames s e) :
    readFrames frames row s e = .fail :=
  readFrames_invalid frames row s e hv

theorem start_at_or_beyond_last_invalid (F : Nat) (s : Nat) (e : Option Int) (h0 : 0 < s) (hs : F ≤ s) : ¬ WinValid F (some (s : Int)) e := by
  intro hv
  have : winStart (some (s : Int)) = s := winStart_natCast s
  exact hv.1 ⟨by omega, by omega⟩

/-- A stream read pulls at most the prefetch plus what it decodes (header, counts, the window): never the remainder of the file. -/
theorem consumption_bound (file : Bytes) (cache : Option CacheEntry) (hcache : ∀ c, cache = some c → CacheOK c) (w : Window)
    (p : Pose) (c' : Option CacheEntry) (s : SR) (hr : readStream file cache w = some ((p, c'), s))
    (hv : versionClass p.header.version ≠ .v00) :
    s.pulled ≤ prefetchHint cache + (s.off - s.skipped) :=
  readStream_pulled file cache hcache w p c' s hr hv

/-! ### non-vacuity: the sample file read with `start_frame = 0, end_frame = 1` through both readers -/
def sampleFile : Bytes := (C01Sample.write?).getD []
  where C01Sample : Pose :=
    { header := { version := 0, width := 640, height := 480, depth := 0,
                  comps := [{ name := "手", format := "XYC", points := ["a", "é"], limbs := [(0, 1)], colors := [(255, 0, 65535)] }] },
      body := { fps := .f32 0x41C80000, frames := 3, people := 1, points := 2, dims := 2,
                data := [1, 2, 3, 4, 5, 6, 7, 8, 9, 10, 11, 12], conf := [0x3F800000, 0, 0x3F800000, 0x3F800000, 0, 0], missing := [] } }

example : WinValid 3 (some 1) (some 2) := by decide
example : ((readBytes sampleFile none { startFrame := some 1, endFrame := some 2 }).map (·.1.body.data)) = some [5, 6, 7, 8] := by decide +kernel
example : ((readStream sampleFile none { startFrame := some 1, endFrame := some 2 }).map (·.1.1.body.data)) = some [5, 6, 7, 8] := by decide +kernel

/-! ### windows tile the file; a window of a window -/

theorem take_drop_tile {α : Type} (l : List α) (s n m row : Nat) :
    (l.drop (s * row)).take (n * row) ++ (l.drop ((s + n) * row)).take (m * row) = (l.drop (s * row)).take ((n + m) * row) := by
  rw [Nat.add_mul s n row, Nat.add_mul n m row, List.take_add, ← List.drop_drop]

/-- **Adjacent windows tile the file**: the frames `[s, s + n)` followed by the frames `[s + n, s + n + m)` are exactly the frames `[s, s + n + m)` —
    no frame is lost, duplicated or reordered at a window boundary, for coordinates, confidences and the missing pattern alike. -/
theorem adjacent_windows_tile (b : Body) (s n m : Nat) :
    (b.slice s n).data ++ (b.slice (s + n) m).data = (b.slice s (n + m)).data ∧
    (b.slice s n).conf ++ (b.slice (s + n) m).conf = (b.slice s (n + m)).conf ∧
    (b.slice s n).missing ++ (b.slice (s + n) m).missing = (b.slice s (n + m)).missing ∧
    (b.slice s n).frames + (b.slice (s + n) m).frames = (b.slice s (n + m)).frames := by
  obtain ⟨f1, _, d1, c1, m1⟩ := slice_spec b s n
  obtain ⟨f2, _, d2, c2, m2⟩ := slice_spec b (s + n) m
  obtain ⟨f3, _, d3, c3, m3⟩ := slice_spec b s (n + m)
  rw [d1, d2, d3, c1, c2, c3, m1, m2, m3, f1, f2, f3]
  exact ⟨take_drop_tile _ _ _ _ _, take_drop_tile _ _ _ _ _, take_drop_tile _ _ _ _ _, rfl⟩

/-- a window of a window is a window of the file: frames `[t, t + k)` of the frames `[s, s + n)` are the frames `[s + t, s + t + k)` whenever they lie inside -/
theorem slice_data_of_slice {α : Type} (l : List α) (s n t k row : Nat) (h : t + k ≤ n) :
    (((l.drop (s * row)).take (n * row)).drop (t * row)).take (k * row) = (l.drop ((s + t) * row)).take (k * row) := by
  rw [List.drop_take, List.take_take, List.drop_drop, Nat.add_mul]
  have : k * row ≤ n * row - t * row := by
    rw [← Nat.sub_mul]; exact Nat.mul_le_mul_right row (by omega)
  rw [Nat.min_eq_left this]

/-! non-vacuity: a two-frame body; frame 0 followed by frame 1 is the whole body -/
def tileBody : Body :=
  { fps := .f32 0x41C80000, frames := 2, people := 1, points := 2, dims := 2,
    data := [1, 2, 3, 4, 5, 6, 7, 8], conf := [0x3F800000, 0, 0x3F800000, 0x3F800000], missing := [] }
example : (tileBody.slice 0 1).data = [1, 2, 3, 4] ∧ (tileBody.slice 1 1).data = [5, 6, 7, 8] ∧
    (tileBody.slice 0 1).data ++ (tileBody.slice 1 1).data = tileBody.data ∧ (tileBody.slice 0 2).conf = tileBody.conf := by decide +kernel
end PoseVerif.Props.C03
