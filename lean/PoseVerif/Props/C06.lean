import PoseVerif.Proofs.Cache
/-!
# C06 — a read depends only on bytes and arguments, never on earlier reads or callers

`Store`/`Op` (Model/Cache.lean): the process as an object store — the header memo with its own object, the objects handed to callers,
and the calls `read`, in-place `mutate` through any reference a caller holds, `copy`, `clear`. `parseHeader` is the header decoder of the codec model.
A history is any list of such calls, of any length.
-/
namespace PoseVerif.Props.C06
open PoseVerif

/-- After ANY history, a read hands out a fresh object holding exactly the decode of its own bytes — or raises exactly when those bytes do not decode. -/
theorem read_pure (hist : List (Op Header)) (file : Bytes) :
    let s := (Store.empty : Store Header).run parseHeader hist
    match (s.exec parseHeader (.read file)).2 with
    | some r => ∃ hd e, parseHeader file = some (hd, e) ∧ (s.exec parseHeader (.read file)).1.heap r = some hd ∧ r ∉ s.handed
    | none => parseHeader file = none := by
  intro s
  have hinv : SInv parseHeader s := run_inv parseHeader _ hist (SInv_empty parseHeader)
  cases hr : (s.exec parseHeader (.read file)).2 with
  | some r =>
    obtain ⟨hd, e, h1, h2, h3, _⟩ := read_value parseHeader parseHeader_prefixDet s hinv file r hr
    exact ⟨hd, e, h1, h2, h3⟩
  | none => exact read_none parseHeader parseHeader_prefixDet s hinv file hr

/-- After ANY history the objects callers hold are pairwise distinct, and the memo's own object is none of them:
    poses returned by separate reads, and a pose and its `copy()`, share no header state with each other or with the cache. -/
theorem results_disjoint (hist : List (Op Header)) :
    let s := (Store.empty : Store Header).run parseHeader hist
    s.handed.Nodup ∧ ∀ key e a, s.cache = some (key, e, a) → a ∉ s.handed := by
  intro s
  have hinv : SInv parseHeader s := run_inv parseHeader _ hist (SInv_empty parseHeader)
  exact ⟨hinv.nodup, fun key e a hk => (hinv.cache_ok key e a hk).2.1⟩

/-- Changing one object through any in-place edit leaves every other object (other results, copies, the memo) unchanged. -/
theorem mutation_local (s : Store Header) (a : Nat) (m : HMut) (b : Nat) (hb : b ≠ a) :
    (s.exec parseHeader (.mutate a m.apply)).1.heap b = s.heap b :=
  mutate_local parseHeader s a m.apply b hb

/-- Reads, copies and cache clears never change an object that already exists. -/
theorem other_calls_preserve (s : Store Header) (op : Op Header) (hop : ∀ a f, op ≠ .mutate a f) (b : Nat) (hb : b < s.next) :
    (s.exec parseHeader op).1.heap b = s.heap b :=
  exec_preserves parseHeader s op hop b hb

/-- The whole pose (header and body, any window) returned by a byte-string read is the same with an empty cache and with any entry an earlier
    read may have stored — in both directions, so the result does not depend on whether this is the first read of the process. -/
theorem pose_independent_of_cache (c : CacheEntry) (hc : CacheOK c) (file : Bytes) (w : Window) (p : Pose) :
    (∃ c1, readBytes file (some c) w = some (p, c1)) ↔ (∃ c2, readBytes file none w = some (p, c2)) := by
  constructor
  · rintro ⟨c1, h⟩; exact readBytes_cache_neutral c hc file w p c1 h
  · rintro ⟨c2, h⟩
    simp only [readBytes, Option.map_eq_some_iff] at h ⊢
    obtain ⟨⟨⟨p', c'⟩, o⟩, hrun, heq⟩ := h
    simp only [Prod.mk.injEq] at heq
    obtain ⟨rfl, rfl⟩ := heq
    obtain ⟨e, hh, hb⟩ := rdPose_none_inv hrun
    obtain ⟨f0, hf0, hkey⟩ := hc
    by_cases hhit : file.take c.endOff = c.key
    · have hdet := rdHeaderRaw_prefixDet f0 file c.header c.endOff hf0 (by rw [hhit, hkey])
      rw [hh] at hdet
      simp only [Option.some.injEq, Prod.mk.injEq] at hdet
      obtain ⟨hhd, he⟩ := hdet
      refine ⟨some c, ⟨(p', some c), o⟩, ?_, rfl⟩
      simp only [rdPose, runBR]
      have : runBR (rdHeader (some c)) file 0 = some ((c.header, some c), c.endOff) := by
        simp [rdHeader, runBR, hhit]
      rw [runBR_bind_some this]
      simp only []
      rw [← hhd, ← he, runBR_bind_some hb]
      simp [runBR]
    · refine ⟨c', ⟨(p', c'), o⟩, ?_, rfl⟩
      simp only [rdPose, runBR] at hrun ⊢
      have : rdHeader (some c) = Prog.peek c.endOff fun b => if b = c.key then Prog.setOff c.endOff (Prog.ret (c.header, some c)) else rdHeader none := rfl
      rw [this]
      simp only [Prog.bind, runBR, if_neg hhit]
      exact hrun

/-! non-vacuity / sanity of the machine on a concrete history: read A, mutate the result, read A again (cache hit), copy, mutate the copy, read again -/
def hdrA : Header :=
  { version := v02bits, width := 10, height := 20, depth := 0,
    comps := [{ name := "c", format := "XYC", points := ["p", "q"], limbs := [(0, 1)], colors := [(1, 2, 3)] }] }
def fileA : Bytes := (encHeaderAny? hdrA).getD []

def demoStore : Store Header := (Store.empty : Store Header).run parseHeader
  [.read fileA, .mutate 0 (HMut.setDims 44 44 0).apply, .read fileA, .copy 2, .mutate 3 (HMut.renameComp 0 "zzz").apply, .read fileA]

example : demoStore.handed = [4, 3, 2, 0] := by decide +kernel
example : (demoStore.heap 0).map (·.width) = some 44 := by decide +kernel          -- the caller's edit (what `focus()` does)
example : (demoStore.heap 2).map (·.width) = some 10 := by decide +kernel          -- a later read of the same bytes is unaffected
example : (demoStore.heap 3).map (fun h => h.comps.map (·.name)) = some ["zzz"] := by decide +kernel   -- the edited copy
example : (demoStore.heap 4) = some hdrA := by decide +kernel                      -- the last read: exactly the file's header

/-! ### history independence as one equation -/

/-- the header value a read returns in state `s` (`none`: the read raises) -/
def readVal (s : Store Header) (file : Bytes) : Option Header :=
  match (s.exec parseHeader (.read file)).2 with
  | some r => (s.exec parseHeader (.read file)).1.heap r
  | none => none

/-- **History independence, as an equation.** After ANY history the value a read returns is the pure decode of its bytes. -/
theorem read_value_is_decode (hist : List (Op Header)) (file : Bytes) :
    readVal ((Store.empty : Store Header).run parseHeader hist) file = (parseHeader file).map (·.1) := by
  have h := read_pure hist file
  delta readVal
  simp only at h ⊢
  split at h
  · next r hr =>
    obtain ⟨hd, e, h1, h2, _⟩ := h
    simp [hr, h1, h2]
  · next hr => simp [hr, h]

/-- … hence any two histories whatever (first read of the process or not; any mutations in between) give the same result for the same bytes. -/
theorem read_same_after_any_two_histories (h1 h2 : List (Op Header)) (file : Bytes) :
    readVal ((Store.empty : Store Header).run parseHeader h1) file = readVal ((Store.empty : Store Header).run parseHeader h2) file := by
  rw [read_value_is_decode, read_value_is_decode]

example : readVal demoStore fileA = some hdrA := by decide +kernel
end PoseVerif.Props.C06
