import PoseVerif.Model.JS
import PoseVerif.Proofs.Window2
import PoseVerif.Proofs.JSV00
import PoseVerif.Props.C04
/-!
# C05 — the JavaScript reader and the Python reader agree on every file (v0.1 / v0.2)

Both decoders are Lean functions over the same bytes: `readFull` (Python, `Model/Body.lean`) and `jsParse` (JavaScript, `Model/JS.lean`).
The version switch of the JavaScript side is binary64 arithmetic (`Math.round(v·1000)/1000`); the theorems take its agreement with the Python
classification on the file's version as a hypothesis (`hcls`) — it is evaluated with `Float` by the driver on every tested pattern.
Partial: v0.0 bodies and the npm package `binary-parser` (replaced by a stand-in) are covered by the correspondence check only.
-/
namespace PoseVerif.Props.C05
open PoseVerif

/-- The JavaScript flat index is the row-major index of Python's `(frames, people, points, dims)` array… -/
theorem js_index (i j k l d P N D : Nat) :
    jsPlace P N i j k l * D + d = ((i * P + j) * N + (k + l)) * D + d := by
  simp only [jsPlace, Nat.add_mul, Nat.mul_assoc, Nat.add_assoc]
/-- …and of the `(frames, people, points)` confidence array. -/
theorem js_conf_index (i j k l P N : Nat) : jsPlace P N i j k l = (i * P + j) * N + (k + l) := by
  simp only [jsPlace, Nat.add_mul, Nat.mul_assoc, Nat.add_assoc]

theorem jsDims_eq (h : Header) (d : Nat) (hd : h.numDims? = some d) : jsDims? h = some d := by
  unfold Header.numDims? at hd
  unfold jsDims?
  split at hd
  · cases hd
  · rename_i l ls heq
    rw [heq]
    simp only [] at hd ⊢
    split at hd
    · cases hd
    · simpa using hd

/-- **v0.2.** For every file the Python reader accepts as v0.2, the JavaScript parser reports the same header and header length, the same fps,
    frame and people counts, and the same flat coordinate and confidence arrays (hence, by `js_index`, the same value for every frame, person,
    component and point). -/
theorem js_agrees_v02 (cls : F32 → VersionClass) (b : Bytes) (p : Pose) (c : Option CacheEntry) (n : Nat)
    (hr : runBR (rdPose none {}) b 0 = some ((p, c), n)) (hv : versionClass p.header.version = .v02)
    (hcls : cls p.header.version = versionClass p.header.version) :
    ∃ e, runBR rdHeaderRaw b 0 = some (p.header, e) ∧
      jsParse cls b = some (p.header, e, { fps := p.body.fps, frames := p.body.frames, people := p.body.people, points := p.body.points,
                                           dims := p.body.dims, data := p.body.data, conf := p.body.conf }) := by
  obtain ⟨e, hh, hb⟩ := rdPose_none_inv hr
  refine ⟨e, hh, ?_⟩
  simp only [rdBody, hv, rdBodyV02_full] at hb
  obtain ⟨fps, frames, people, dims, h1, h2, h3, hnd, hfit, rfl, hmk⟩ := rdBodyV02Full_inv _ _ _ _ _ hb
  unfold mkBody? at hmk
  split at hmk
  · cases hmk
  · simp only [Option.some.injEq] at hmk
    simp only [jsParse, hh, hcls, hv, jsBody]
    rw [runBR_bind_some h1, runBR_bind_some h2, runBR_bind_some h3, jsDims_eq _ _ hnd]
    simp only [ofOption_some_bind, jsBlocks, runBR]
    have a1 : frames * people * p.header.totalPoints * dims * 4 = frames * (people * p.header.totalPoints * dims * 4) := by ac_rfl
    have a2 : frames * people * p.header.totalPoints * 4 = frames * (people * p.header.totalPoints * 4) := by ac_rfl
    rw [a1, a2, if_pos (by omega), if_pos (by omega)]
    rw [← hmk]
    simp

/-- **v0.1**, for files whose 16-bit frame-count field holds the real frame count (the JavaScript side trusts the field; Python derives the count
    from the payload size). -/
theorem js_agrees_v01 (cls : F32 → VersionClass) (b : Bytes) (h : Header) (e : Nat) (body : Body) (n : Nat)
    (hh : runBR rdHeaderRaw b 0 = some (h, e)) (hv : versionClass h.version = .v01) (hcls : cls h.version = .v01)
    (fpsI field people dims : Nat)
    (h1 : runBR rd2U16 b e = some ((fpsI, field), e + 4)) (h2 : runBR rdU16 b (e + 4) = some (people, e + 6)) (hnd : h.numDims? = some dims)
    (hblocks : runBR (rdBlocks (.int fpsI) field people h.totalPoints dims none none) b (e + 6) = some (body, n)) :
    jsParse cls b = some (h, e, { fps := body.fps, frames := body.frames, people := body.people, points := body.points,
                                  dims := body.dims, data := body.data, conf := body.conf }) := by
  obtain ⟨hfit, rfl, hmk⟩ := rdBlocks_full_inv _ _ _ _ _ _ _ _ _ hblocks
  unfold mkBody? at hmk
  split at hmk
  · cases hmk
  · simp only [Option.some.injEq] at hmk
    simp only [jsParse, hh, hcls, jsBody]
    rw [runBR_bind_some h1, runBR_bind_some h2, jsDims_eq _ _ hnd]
    simp only [ofOption_some_bind, jsBlocks, runBR]
    have a1 : field * people * h.totalPoints * dims * 4 = field * (people * h.totalPoints * dims * 4) := by ac_rfl
    have a2 : field * people * h.totalPoints * 4 = field * (people * h.totalPoints * 4) := by ac_rfl
    rw [a1, a2, if_pos (by omega), if_pos (by omega)]
    rw [← hmk]
    simp

end PoseVerif.Props.C05

namespace PoseVerif.Props.C05
open PoseVerif
/-! non-vacuity: a 2-frame, 2-point file: the JavaScript model returns the arrays the Python model returns, and point (frame 1, person 0, offset 0, point 1) is found at flat index 3 -/
def sample : Pose :=
  { header := { version := 0, width := 1, height := 2, depth := 0, comps := [{ name := "c", format := "XYC", points := ["p", "q"], limbs := [], colors := [] }] },
    body := { fps := .f32 0x41C80000, frames := 2, people := 1, points := 2, dims := 2, data := [1, 2, 3, 4, 5, 6, 7, 8], conf := [9, 10, 11, 12], missing := [] } }
example : (sample.write?.bind (jsParse versionClass)).map (fun r => (r.2.2.data, r.2.2.conf, r.2.2.coord 1 0 0 1 0, r.2.2.confidence 1 0 0 1))
    = some ([1, 2, 3, 4, 5, 6, 7, 8], [9, 10, 11, 12], 7, 12) := by decide +kernel
/-! ### v0.0 -/

open Prog

/-- **parser.ts on a reference v0.0 file**: the header, its length, fps and, frame by frame, every listed person with its id and every component's points -/
theorem js_v00_enc (h : Header) (hr : h.Rep) (fps : Nat) (frames : List (List PersonV00)) (hfps : fps < 65536) (hnf : frames.length < 65536)
    (hpeople : ∀ ps ∈ frames, ps.length < 65536) (hid : ∀ ps ∈ frames, ∀ p ∈ ps, p.id < 65536)
    (hfit : ∀ ps ∈ frames, ∀ p ∈ ps, p.blocks.length = h.comps.length ∧ ∀ cv ∈ h.comps.zip p.blocks, cv.2.length = cv.1.points.length * cv.1.format.length) :
    jsParseV00 (specFileV00 h fps frames) = some ({ h with version := 0 }, (specHeader h 0).length, fps, frames.map (List.map (jsOfPersonV00 h.comps))) := by
  have henc : encHeaderAny? { h with version := 0 } = some (specHeader h 0) := encHeaderAny?_of_rep _ (Header.Rep_version 0 hr)
  have hh := Enc_rdHeaderRaw _ _ (specBodyV00 fps frames) henc
  unfold jsParseV00 specFileV00
  rw [hh]
  simp only []
  have hrel : Rel (jsBodyV00 { h with version := 0 }) := Rel_bind _ _ Rel_rd2U16 fun _ => Rel_bind _ _ (Rel_many _ (Rel_jsFrameV00 _) _) fun _ => trivial
  rw [runBR_drop _ hrel _ _ (by simp), List.drop_left]
  have hbody : runBR (jsBodyV00 { h with version := 0 }) (specBodyV00 fps frames) 0 =
      some ((fps, frames.map (List.map (jsOfPersonV00 h.comps))), (specBodyV00 fps frames).length) := by
    unfold jsBodyV00 specBodyV00
    have e0 : putU16 fps ++ putU16 frames.length ++ (frames.map specFrameV00).flatten = (putU16 fps ++ putU16 frames.length) ++ ((frames.map specFrameV00).flatten ++ []) := by simp
    rw [e0, List.length_append]
    refine seq_enc (Enc_rd2U16 (fps, frames.length) _ _ (pack2U16?_of_lt hfps hnf)) (Rel_bind _ _ (Rel_many _ (Rel_jsFrameV00 _) _) fun _ => trivial) ?_
    rw [runBR_bind_some (run_many_dec (jsFrameV00 h.comps) (Rel_jsFrameV00 _) specFrameV00 (List.map (jsOfPersonV00 h.comps)) frames []
      fun ps hps r => jsFrame_spec h.comps ps (hpeople ps hps) (hid ps hps) (hfit ps hps) r)]
    simp [runBR]
  rw [hbody]
  rfl

/-- what Python keeps of the JavaScript result: per frame the first person's points, coordinates = all letters but the last, confidence = the last; zeros for an empty frame -/
def pyViewOfJS (points dims : Nat) (frames : List (List JSPersonV00)) : List (List F32 × List F32) :=
  frames.map fun ps => match ps with
    | [] => (List.replicate (points * dims) 0, List.replicate points 0)
    | p :: _ => ((p.comps.map fun rows => (rows.map fun r => r.take (r.length - 1)).flatten).flatten, (p.comps.map fun rows => rows.map fun r => r.getD (r.length - 1) 0).flatten)

theorem frame_view_eq (comps : List Comp) (points dims : Nat) (ps : List PersonV00) (hp : ∀ p ∈ ps, p.Fits comps) :
    decodeFrameV00 comps points dims ps =
      (match ps.map (jsOfPersonV00 comps) with
        | [] => (List.replicate (points * dims) 0, List.replicate points 0)
        | p :: _ => ((p.comps.map fun rows => (rows.map fun r => r.take (r.length - 1)).flatten).flatten, (p.comps.map fun rows => rows.map fun r => r.getD (r.length - 1) 0).flatten)) := by
  cases ps with
  | nil => rfl
  | cons p rest =>
    have hfit := hp p (by simp)
    simp only [decodeFrameV00, List.map_cons, jsOfPersonV00]
    have key : ∀ (cs : List Comp) (bl : List (List F32)), (∀ cv ∈ cs.zip bl, cv.2.length = cv.1.points.length * cv.1.format.length ∧ 2 ≤ cv.1.format.length) →
        (List.zipWith decodeBlock cs bl).map (·.2.1) = (List.zipWith (fun c vals => rowsOf c.points.length c.format.length vals) cs bl).map (fun rows => (rows.map fun r => r.take (r.length - 1)).flatten) ∧
        (List.zipWith decodeBlock cs bl).map (·.2.2) = (List.zipWith (fun c vals => rowsOf c.points.length c.format.length vals) cs bl).map (fun rows => rows.map fun r => r.getD (r.length - 1) 0) := by
      intro cs
      induction cs with
      | nil => intro bl _; simp
      | cons c cs ih =>
        intro bl hw
        cases bl with
        | nil => simp
        | cons v vs =>
          obtain ⟨i1, i2⟩ := ih vs (fun cv hcv => hw cv (by simp only [List.zip_cons_cons]; exact List.mem_cons_of_mem _ hcv))
          have hv := (hw (c, v) (by simp)).1
          simp only [] at hv
          have hrows := rowsOf_lengths c.points.length c.format.length v hv
          simp only [List.zipWith_cons_cons, List.map_cons, i1, i2, decodeBlock]
          refine ⟨?_, ?_⟩
          · congr 2
            apply List.map_congr_left
            intro r hr; rw [hrows r hr]
          · congr 1
            apply List.map_congr_left
            intro r hr; rw [hrows r hr]
    obtain ⟨k1, k2⟩ := key comps p.blocks hfit.2
    rw [k1, k2]

/-- **v0.0: the two readers agree on every reference-encoded file.** parser.ts reports every listed person; the Python reader returns, frame by frame, exactly the
    first of them (coordinates = all letters of the format but the last, confidence = the last), and zeros for a frame in which parser.ts lists nobody;
    same header, header length (= where the body starts), fps and frame count. -/
theorem js_agrees_v00 (h : Header) (hr : h.Rep) (dims fps : Nat) (frames : List (List PersonV00)) (hfps : fps < 65536) (hnf : frames.length < 65536) (hf1 : frames ≠ [])
    (hd1 : 1 ≤ dims) (hne : h.comps ≠ []) (hfmt : ∀ c ∈ h.comps, c.format.length = dims + 1)
    (hpeople : ∀ ps ∈ frames, ps.length < 65536) (hid : ∀ ps ∈ frames, ∀ p ∈ ps, p.id < 65536) (hfit : ∀ ps ∈ frames, ∀ p ∈ ps, p.Fits h.comps) :
    ∃ (jsf : List (List JSPersonV00)) (body : Body),
      jsParseV00 (specFileV00 h fps frames) = some ({ h with version := 0 }, (specHeader h 0).length, fps, jsf) ∧
      readFull (specFileV00 h fps frames) = some ⟨{ h with version := 0 }, body⟩ ∧
      body.fps = .int fps ∧ body.frames = jsf.length ∧ body.people = 1 ∧
      body.data = ((pyViewOfJS h.totalPoints dims jsf).map (·.1)).flatten ∧ body.conf = ((pyViewOfJS h.totalPoints dims jsf).map (·.2)).flatten := by
  refine ⟨frames.map (List.map (jsOfPersonV00 h.comps)), decodedBodyV00 h dims fps frames, ?_, ?_, rfl, by simp [decodedBodyV00], rfl, ?_, ?_⟩
  · exact js_v00_enc h hr fps frames hfps hnf hpeople hid (fun ps hps p hp => ⟨(hfit ps hps p hp).1, fun cv hcv => ((hfit ps hps p hp).2 cv hcv).1⟩)
  · exact C04.readV00_enc h hr dims fps frames hfps hnf hf1 hd1 hne hfmt hpeople hfit
  · simp only [decodedBodyV00, pyViewOfJS, List.map_map]
    congr 1
    apply List.map_congr_left
    intro ps hps
    simp only [Function.comp]
    rw [frame_view_eq h.comps h.totalPoints dims ps (hfit ps hps)]
  · simp only [decodedBodyV00, pyViewOfJS, List.map_map]
    congr 1
    apply List.map_congr_left
    intro ps hps
    simp only [Function.comp]
    rw [frame_view_eq h.comps h.totalPoints dims ps (hfit ps hps)]

end PoseVerif.Props.C05
