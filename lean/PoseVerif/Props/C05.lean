import PoseVerif.Model.JS
import PoseVerif.Proofs.Window2
/-!
# C05 — the JavaScript reader and the Python reader agree on every file (v0.1 / v0.2)

Both decoders are Lean functions over the same bytes: `readFull` (Python, `Model/Body.lean`) and `jsParse` (JavaScript, `Model/JS.lean`).
The version switch of the JavaScript side is binary64 arithmetic (`Math.round(v·1000)/1000`); the theorems take its agreement with the Python
classification on the file's version as a hypothesis (`hcls`) — it is evaluated with `Float` by the driver on every tested pattern.
Partial: v0.0 bodies and the npm package `binary-parser` (replaced by a stand-in) are covered by the correspondence check only.
-/
namespace PoseVerif.Props.C05
open PoseVerif

/-- The JavaScript flat index is the row-major index of Python's `(frames, people, points, dims)` array… -/
theorem js_index (i j k l d P N D : Nat) :
    jsPlace P N i j k l * D + d = ((i * P + j) * N + (k + l)) * D + d := by
  simp only [jsPlace, Nat.add_mul, Nat.mul_assoc, Nat.add_assoc]
/-- …and of the `(frames, people, points)` confidence array. -/
theorem js_conf_index (i j k l P N : Nat) : jsPlace P N i j k l = (i * P + j) * N + (k + l) := by
  simp only [jsPlace, Nat.add_mul, Nat.mul_assoc, Nat.add_assoc]

theorem jsDims_eq (h : Header) (d : Nat) (hd : h.numDims? = some d) : jsDims? h = some d := by
  unfold Header.numDims? at hd
  unfold jsDims?
  split at hd
  · cases hd
  · rename_i l ls heq
    rw [heq]
    simp only [] at hd ⊢
    split at hd
    · cases hd
    · simpa using hd

/-- **v0.2.** For every file the Python reader accepts as v0.2, the JavaScript parser reports the same header and header length, the same fps,
    frame and people counts, and the same flat coordinate and confidence arrays (hence, by `js_index`, the same value for every frame, person,
    component and point). -/
theorem js_agrees_v02 (cls : F32 → VersionClass) (b : Bytes) (p : Pose) (c : Option CacheEntry) (n : Nat)
    (hr : runBR (rdPose none {}) b 0 = some ((p, c), n)) (hv : versionClass p.header.version = .v02)
    (hcls : cls p.header.version = versionClass p.header.version) :
    ∃ e, runBR rdHeaderRaw b 0 = some (p.header, e) ∧
      jsParse cls b = some (p.header, e, { fps := p.body.fps, frames := p.body.frames, people := p.body.people, points := p.body.points,
                                           dims := p.body.dims, data := p.body.data, conf := p.body.conf }) := by
  obtain ⟨e, hh, hb⟩ := rdPose_none_inv hr
  refine ⟨e, hh, ?_⟩
  simp only [rdBody, hv, rdBodyV02_full] at hb
  obtain ⟨fps, frames, people, dims, h1, h2, h3, hnd, hfit, rfl, hmk⟩ := rdBodyV02Full_inv _ _ _ _ _ hb
  unfold mkBody? at hmk
  split at hmk
  · cases hmk
  · simp only [Option.some.injEq] at hmk
    simp only [jsParse, hh, hcls, hv, jsBody]
    rw [runBR_bind_some h1, runBR_bind_some h2, runBR_bind_some h3, jsDims_eq _ _ hnd]
    simp only [ofOption_some_bind, jsBlocks, runBR]
    have a1 : frames * people * p.header.totalPoints * dims * 4 = frames * (people * p.header.totalPoints * dims * 4) := by ac_rfl
    have a2 : frames * people * p.header.totalPoints * 4 = frames * (people * p.header.totalPoints * 4) := by ac_rfl
    rw [a1, a2, if_pos (by omega), if_pos (by omega)]
    rw [← hmk]
    simp

/-- **v0.1**, for files whose 16-bit frame-count field holds the real frame count (the JavaScript side trusts the field; Python derives the count
    from the payload size). -/
theorem js_agrees_v01 (cls : F32 → VersionClass) (b : Bytes) (h : Header) (e : Nat) (body : Body) (n : Nat)
    (hh : runBR rdHeaderRaw b 0 = some (h, e)) (hv : versionClass h.version = .v01) (hcls : cls h.version = .v01)
    (fpsI field people dims : Nat)
    (h1 : runBR rd2U16 b e = some ((fpsI, field), e + 4)) (h2 : runBR rdU16 b (e + 4) = some (people, e + 6)) (hnd : h.numDims? = some dims)
    (hblocks : runBR (rdBlocks (.int fpsI) field people h.totalPoints dims none none) b (e + 6) = some (body, n)) :
    jsParse cls b = some (h, e, { fps := body.fps, frames := body.frames, people := body.people, points := body.points,
                                  dims := body.dims, data := body.data, conf := body.conf }) := by
  obtain ⟨hfit, rfl, hmk⟩ := rdBlocks_full_inv _ _ _ _ _ _ _ _ _ hblocks
  unfold mkBody? at hmk
  split at hmk
  · cases hmk
  · simp only [Option.some.injEq] at hmk
    simp only [jsParse, hh, hcls, jsBody]
    rw [runBR_bind_some h1, runBR_bind_some h2, jsDims_eq _ _ hnd]
    simp only [ofOption_some_bind, jsBlocks, runBR]
    have a1 : field * people * h.totalPoints * dims * 4 = field * (people * h.totalPoints * dims * 4) := by ac_rfl
    have a2 : field * people * h.totalPoints * 4 = field * (people * h.totalPoints * 4) := by ac_rfl
    rw [a1, a2, if_pos (by omega), if_pos (by omega)]
    rw [← hmk]
    simp

end PoseVerif.Props.C05

namespace PoseVerif.Props.C05
open PoseVerif
/-! non-vacuity: a 2-frame, 2-point file: the JavaScript model returns the arrays the Python model returns, and point (frame 1, person 0, offset 0, point 1) is found at flat index 3 -/
def sample : Pose :=
  { header := { version := 0, width := 1, height := 2, depth := 0, comps := [{ name := "c", format := "XYC", points := ["p", "q"], limbs := [], colors := [] }] },
    body := { fps := .f32 0x41C80000, frames := 2, people := 1, points := 2, dims := 2, data := [1, 2, 3, 4, 5, 6, 7, 8], conf := [9, 10, 11, 12], missing := [] } }
example : (sample.write?.bind (jsParse versionClass)).map (fun r => (r.2.2.data, r.2.2.conf, r.2.2.coord 1 0 0 1 0, r.2.2.confidence 1 0 0 1))
    = some ([1, 2, 3, 4, 5, 6, 7, 8], [9, 10, 11, 12], 7, 12) := by decide +kernel
end PoseVerif.Props.C05
