import PoseVerif.Model.Spatial
import Mathlib.Algebra.Order.Field.Basic
import Mathlib.Tactic.Ring
import Mathlib.Tactic.Linarith
import Mathlib.Algebra.Order.Floor.Semiring
/-!
# C15 — spatial transforms obey their algebra and extents are tight

The executable model (`Model/Spatial.lean`, `Model/PoseOps.lean`) is parametric in a scalar record; here it is instantiated with an arbitrary linearly ordered
field `K` (so the statements hold for all real inputs at once; float rounding is outside them). Clauses about confidences / missing flags need no arithmetic.
-/
namespace PoseVerif.Props.C15
open PoseVerif

variable {K : Type} [Field K] [LinearOrder K] [IsStrictOrderedRing K]

instance : Inhabited K := ⟨0⟩

/-- the scalar record of a linearly ordered field (square root, powers and finiteness are irrelevant to the spatial transforms) -/
noncomputable def fieldScalar : Scalar K :=
  { zero := 0, add := (· + ·), sub := (· - ·), mul := (· * ·), div := (· / ·), pow := fun x _ => x, sqrt := id, ofNat := fun n => (n : K),
    isFinite := fun _ => true, isNaN := fun _ => false, lt := fun a b => decide (a < b), neg := fun a => -a, ceilNat := fun _ => 0 }

/-! ### min / max over the observed values -/

theorem foldl_min_spec (x : K) (xs : List K) :
    let m := xs.foldl (fun m y => if (fieldScalar (K := K)).lt y m then y else m) x
    m ∈ x :: xs ∧ ∀ y ∈ x :: xs, m ≤ y := by
  induction xs generalizing x with
  | nil => simp
  | cons z zs ih =>
    simp only [List.foldl_cons]
    by_cases h : (fieldScalar (K := K)).lt z x = true
    · have hz : z < x := by simpa [fieldScalar] using h
      rw [if_pos h]
      obtain ⟨hm, hle⟩ := ih z
      refine ⟨?_, ?_⟩
      · rcases List.mem_cons.mp hm with h1 | h1
        · rw [h1]; simp
        · exact List.mem_cons_of_mem _ (List.mem_cons_of_mem _ h1)
      · intro y hy
        rcases List.mem_cons.mp hy with rfl | hy
        · exact le_trans (hle z (by simp)) (le_of_lt hz)
        · exact hle y hy
    · have hz : ¬ z < x := by simpa [fieldScalar] using h
      rw [if_neg h]
      obtain ⟨hm, hle⟩ := ih x
      refine ⟨?_, ?_⟩
      · rcases List.mem_cons.mp hm with h1 | h1
        · rw [h1]; simp
        · exact List.mem_cons_of_mem _ (List.mem_cons_of_mem _ h1)
      · intro y hy
        rcases List.mem_cons.mp hy with rfl | hy
        · exact hle y (by simp)
        · rcases List.mem_cons.mp hy with rfl | hy
          · exact le_trans (hle x (by simp)) (not_lt.mp hz)
          · exact hle y (List.mem_cons_of_mem _ hy)

theorem foldl_max_spec (x : K) (xs : List K) :
    let m := xs.foldl (fun m y => if (fieldScalar (K := K)).lt m y then y else m) x
    m ∈ x :: xs ∧ ∀ y ∈ x :: xs, y ≤ m := by
  induction xs generalizing x with
  | nil => simp
  | cons z zs ih =>
    simp only [List.foldl_cons]
    by_cases h : (fieldScalar (K := K)).lt x z = true
    · have hz : x < z := by simpa [fieldScalar] using h
      rw [if_pos h]
      obtain ⟨hm, hle⟩ := ih z
      refine ⟨?_, ?_⟩
      · rcases List.mem_cons.mp hm with h1 | h1
        · rw [h1]; simp
        · exact List.mem_cons_of_mem _ (List.mem_cons_of_mem _ h1)
      · intro y hy
        rcases List.mem_cons.mp hy with rfl | hy
        · exact le_trans (le_of_lt hz) (hle z (by simp))
        · exact hle y hy
    · have hz : ¬ x < z := by simpa [fieldScalar] using h
      rw [if_neg h]
      obtain ⟨hm, hle⟩ := ih x
      refine ⟨?_, ?_⟩
      · rcases List.mem_cons.mp hm with h1 | h1
        · rw [h1]; simp
        · exact List.mem_cons_of_mem _ (List.mem_cons_of_mem _ h1)
      · intro y hy
        rcases List.mem_cons.mp hy with rfl | hy
        · exact hle y (by simp)
        · rcases List.mem_cons.mp hy with rfl | hy
          · exact le_trans (not_lt.mp hz) (hle x (by simp))
          · exact hle y (List.mem_cons_of_mem _ hy)

/-- **Bounding boxes are tight**: for the observed values `obs` of one coordinate of a component (in one frame and person), the box `[lo, hi]` computed by the
    model contains every observed value, its two sides are attained by observed values, hence it is contained in every box that contains them all; and the box is
    missing exactly when there is no observed value. -/
theorem bbox_tight (obs : List K) :
    (minOpt fieldScalar obs = none ↔ obs = []) ∧ (maxOpt fieldScalar obs = none ↔ obs = []) ∧
    ∀ lo hi, minOpt fieldScalar obs = some lo → maxOpt fieldScalar obs = some hi →
      lo ∈ obs ∧ hi ∈ obs ∧ (∀ y ∈ obs, lo ≤ y ∧ y ≤ hi) ∧ ∀ a b, (∀ y ∈ obs, a ≤ y ∧ y ≤ b) → a ≤ lo ∧ hi ≤ b := by
  cases obs with
  | nil => simp [minOpt, maxOpt]
  | cons x xs =>
    refine ⟨by simp [minOpt], by simp [maxOpt], ?_⟩
    intro lo hi hlo hhi
    simp only [minOpt, maxOpt, Option.some.injEq] at hlo hhi
    obtain ⟨hm1, hm2⟩ := foldl_min_spec x xs
    obtain ⟨hM1, hM2⟩ := foldl_max_spec x xs
    rw [hlo] at hm1 hm2; rw [hhi] at hM1 hM2
    exact ⟨hm1, hM1, fun y hy => ⟨hm2 y hy, hM2 y hy⟩, fun a b hab => ⟨(hab lo hm1).1, (hab hi hM1).2⟩⟩

/-- **focus**: translating by the minimum puts the smallest observed coordinate of the axis at exactly 0, keeps every observed coordinate non-negative, and the
    extent `max − min` is unchanged (that extent, rounded up, becomes the header dimension). -/
theorem focus_min_zero (obs : List K) (lo hi : K) (hlo : minOpt fieldScalar obs = some lo) (hhi : maxOpt fieldScalar obs = some hi) :
    (0 : K) ∈ obs.map (· - lo) ∧ (∀ y ∈ obs.map (· - lo), 0 ≤ y) ∧ (∀ y ∈ obs.map (· - lo), y ≤ hi - lo) ∧ (hi - lo) ∈ obs.map (· - lo) := by
  obtain ⟨_, _, h⟩ := bbox_tight obs
  obtain ⟨h1, h2, h3, _⟩ := h lo hi hlo hhi
  refine ⟨List.mem_map.mpr ⟨lo, h1, by ring⟩, ?_, ?_, List.mem_map.mpr ⟨hi, h2, rfl⟩⟩
  · intro y hy
    obtain ⟨z, hz, rfl⟩ := List.mem_map.mp hy
    linarith [(h3 z hz).1]
  · intro y hy
    obtain ⟨z, hz, rfl⟩ := List.mem_map.mp hy
    linarith [(h3 z hz).2]

/-! ### flip -/

/-- the coordinates of one point after `flip(axis)` -/
def flipPoint (axis : Nat) (pt : List K) : List K := pt.mapIdx fun d x => if d = axis then x * (-(1 : K)) else x * (1 : K)

/-- flipping an axis negates that coordinate only … -/
theorem flip_neg_only (axis : Nat) (pt : List K) (d : Nat) (h : d < pt.length) :
    (flipPoint axis pt)[d]'(by simp [flipPoint, h]) = if d = axis then -pt[d] else pt[d] := by
  simp only [flipPoint, List.getElem_mapIdx]
  split <;> ring
/-- … and is its own inverse -/
theorem flip_involutive (axis : Nat) (pt : List K) : flipPoint axis (flipPoint axis pt) = pt := by
  apply List.ext_getElem
  · simp [flipPoint]
  · intro d h1 h2
    simp only [flipPoint, List.getElem_mapIdx]
    split <;> ring

/-- `flipBody` of the model applies `flipPoint` to every point and leaves confidences alone -/
theorem flipBody_spec (isZero : K → Bool) (axis : Nat) (b : PBody K) :
    (flipBody fieldScalar isZero axis b).conf = b.conf ∧
    (flipBody fieldScalar isZero axis b).data = b.data.map (List.map (List.map (flipPoint axis))) := by
  constructor
  · rfl
  · simp [flipBody, mkBody, flipPoint, fieldScalar]

/-! ### matrix product: identity and linearity (2-D and 3-D, the dimensions poses have) -/

theorem matmul_id_2 (x y : K) : rowMat fieldScalar [x, y] [[1, 0], [0, 1]] = [x, y] := by
  simp [rowMat, sumList, fieldScalar, List.range_succ]
theorem matmul_id_3 (x y z : K) : rowMat fieldScalar [x, y, z] [[1, 0, 0], [0, 1, 0], [0, 0, 1]] = [x, y, z] := by
  simp [rowMat, sumList, fieldScalar, List.range_succ]

theorem matmul_linear_2 (a x y x' y' m00 m01 m10 m11 : K) :
    rowMat fieldScalar [a * x + x', a * y + y'] [[m00, m01], [m10, m11]] =
      List.zipWith (fun u v => a * u + v) (rowMat fieldScalar [x, y] [[m00, m01], [m10, m11]]) (rowMat fieldScalar [x', y'] [[m00, m01], [m10, m11]]) := by
  simp only [rowMat, sumList, fieldScalar, List.length_cons, List.length_nil, List.range_succ, List.range_zero, List.nil_append, List.cons_append,
    List.map_cons, List.map_nil, List.foldl_cons, List.foldl_nil, List.getD_cons_zero, List.getD_cons_succ, List.zipWith_cons_cons, List.zipWith_nil_left]
  congr 1
  · ring
  · congr 1; ring

theorem matmul_linear_3 (a x y z x' y' z' m00 m01 m02 m10 m11 m12 m20 m21 m22 : K) :
    rowMat fieldScalar [a * x + x', a * y + y', a * z + z'] [[m00, m01, m02], [m10, m11, m12], [m20, m21, m22]] =
      List.zipWith (fun u v => a * u + v) (rowMat fieldScalar [x, y, z] [[m00, m01, m02], [m10, m11, m12], [m20, m21, m22]])
        (rowMat fieldScalar [x', y', z'] [[m00, m01, m02], [m10, m11, m12], [m20, m21, m22]]) := by
  simp only [rowMat, sumList, fieldScalar, List.length_cons, List.length_nil, List.range_succ, List.range_zero, List.nil_append, List.cons_append,
    List.map_cons, List.map_nil, List.foldl_cons, List.foldl_nil, List.getD_cons_zero, List.getD_cons_succ, List.zipWith_cons_cons, List.zipWith_nil_left]
  congr 1
  · ring
  · congr 1
    · ring
    · congr 1; ring

/-- the 2-D augmentation matrix `shear · rotation · scale` embedded in the identity: with all deviations 0 nothing is drawn and the matrix is the identity -/
noncomputable def augmentMatrix2 (shear : Option K) (rot : Option (K × K)) (scale : Option K) : List (List K) :=
  let mul (a b : List (List K)) : List (List K) := a.map fun row => rowMat fieldScalar row b
  let m0 : List (List K) := [[1, 0], [0, 1]]
  let m1 := match shear with | some s => mul m0 [[1, s], [0, 1]] | none => m0
  let m2 := match rot with | some (c, s) => mul m1 [[c, -s], [s, c]] | none => m1
  match scale with | some k => mul m2 [[1, 0], [0, 1 + k]] | none => m2

theorem augment_id_when_std_zero : augmentMatrix2 (K := K) none none none = [[1, 0], [0, 1]] := by simp [augmentMatrix2]

/-- none of flip / matmul / augmentation touches confidences; for a consistent body the missing pattern is the one derived from them -/
theorem transforms_keep_conf (isZero : K → Bool) (axis : Nat) (m : List (List K)) (b : PBody K) :
    (flipBody fieldScalar isZero axis b).conf = b.conf ∧ (matmulBody .numpy fieldScalar isZero m b).conf = b.conf := ⟨rfl, rfl⟩

/-! ### `focus()` on the body: translation by the minima, header dimensions = extents rounded up -/

section focusBody
variable {K : Type} [Field K] [LinearOrder K] [IsStrictOrderedRing K] [FloorSemiring K]

/-- the same scalar record with `math.ceil` -/
noncomputable def fieldScalarC : Scalar K := { (fieldScalar (K := K)) with ceilNat := fun x => ⌈x⌉₊ }

theorem mapM_some_getD' (f : Nat → Option K) : ∀ (xs : List Nat) (out : List K), xs.mapM f = some out →
    out.length = xs.length ∧ ∀ i (hi : i < xs.length), f xs[i] = some (out.getD i 0)
  | [], out, h => by simp at h; subst h; exact ⟨rfl, fun i hi => absurd hi (by simp)⟩
  | x :: xs, out, h => by
    simp only [List.mapM_cons, Option.bind_eq_bind, Option.bind_eq_some_iff, Option.pure_def, Option.some.injEq] at h
    obtain ⟨y, hy, rest, hrest, rfl⟩ := h
    obtain ⟨h1, h2⟩ := mapM_some_getD' f xs rest hrest
    refine ⟨by simp [h1], ?_⟩
    intro i hi
    cases i with
    | zero => simpa using hy
    | succ j => simpa using h2 j (by simpa using hi)

/-- **`focus()` on the body**: the header dimensions are the observed extents rounded up, the coordinates are translated by the per-axis minima, confidences and
    missing pattern are untouched. (`isZero` is the exact test `x = 0`.) -/
theorem focusBody_spec (isZero : K → Bool) (hz : ∀ x, isZero x = true ↔ x = 0) (b b' : PBody K) (w h d : Nat)
    (hres : focusBody fieldScalarC isZero b = some (b', w, h, d)) :
    2 ≤ numDimsBody b ∧ ∃ mins maxs : List K, mins.length = numDimsBody b ∧ maxs.length = numDimsBody b ∧
      (∀ i, i < numDimsBody b → minOpt fieldScalar (observedCoord b i fun _ => true) = some (mins.getD i 0) ∧
        maxOpt fieldScalar (observedCoord b i fun _ => true) = some (maxs.getD i 0)) ∧
      w = ⌈maxs.getD 0 0 - mins.getD 0 0⌉₊ ∧ h = ⌈maxs.getD 1 0 - mins.getD 1 0⌉₊ ∧
      d = (if numDimsBody b ≥ 3 then ⌈maxs.getD 2 0 - mins.getD 2 0⌉₊ else 0) ∧
      b'.conf = b.conf ∧ b'.missing = b.missing ∧ b'.fps = b.fps ∧
      b'.data = b.data.map (List.map (List.map fun pt => pt.mapIdx fun i x => x - mins.getD i 0)) := by
  unfold focusBody at hres
  simp only [Option.bind_eq_bind, Option.bind_eq_some_iff] at hres
  obtain ⟨mins, hmins, maxs, hmaxs, hrest⟩ := hres
  split at hrest
  · cases hrest
  · rename_i hD
    simp only [Option.some.injEq, Prod.mk.injEq] at hrest
    obtain ⟨hb, hw, hh, hd⟩ := hrest
    obtain ⟨hl1, hg1⟩ := mapM_some_getD' _ _ _ hmins
    obtain ⟨hl2, hg2⟩ := mapM_some_getD' _ _ _ hmaxs
    simp only [List.length_range] at hl1 hl2 hg1 hg2
    have hext : ∀ i, i < numDimsBody b → (List.zipWith fieldScalarC.sub maxs mins).getD i fieldScalarC.zero = maxs.getD i 0 - mins.getD i 0 := by
      intro i hi
      have h1 : i < maxs.length := by omega
      have h2 : i < mins.length := by omega
      simp only [List.getD_eq_getElem?_getD, List.getElem?_zipWith, List.getElem?_eq_getElem h1, List.getElem?_eq_getElem h2, Option.map₂_some_some, Option.getD_some]
      rfl
    refine ⟨by omega, mins, maxs, hl1, hl2, ?_, ?_, ?_, ?_, ?_, ?_, ?_, ?_⟩
    · intro i hi
      have h1 := hg1 i hi; have h2 := hg2 i hi
      simp only [List.getElem_range] at h1 h2
      exact ⟨h1, h2⟩
    · rw [← hw]; show ⌈_⌉₊ = _; rw [hext 0 (by omega)]
    · rw [← hh]; show ⌈_⌉₊ = _; rw [hext 1 (by omega)]
    · rw [← hd]
      split
      · show ⌈_⌉₊ = _; rw [hext 2 (by omega)]
      · rfl
    · rw [← hb]
    · rw [← hb]
    · rw [← hb]
    · rw [← hb]
      simp only []
      split
      · rfl
      · rename_i hany
        -- every minimum is 0: translating changes nothing
        have hall : ∀ m ∈ mins, m = 0 := by
          intro m hm
          have : ¬ (!isZero m) = true := fun hc => hany (List.any_eq_true.mpr ⟨m, hm, hc⟩)
          have : isZero m = true := by simpa using this
          exact (hz m).mp this
        have hid : ∀ (pt : List K), (pt.mapIdx fun i x => x - mins.getD i 0) = pt := by
          intro pt
          apply List.ext_getElem (by simp)
          intro i h1 h2
          simp only [List.getElem_mapIdx]
          have : mins.getD i 0 = 0 := by
            simp only [List.getD_eq_getElem?_getD]
            cases hmi : mins[i]? with
            | none => rfl
            | some m => exact hall m (List.mem_of_getElem? hmi)
          rw [this, sub_zero]
        have hfun : (fun pt : List K => pt.mapIdx fun i x => x - mins.getD i 0) = id := funext hid
        rw [hfun]
        simp only [List.map_id_fun, id_eq, List.map_id]

/-- "rounded up": the header dimension is the least whole number not below the extent -/
theorem ceil_extent_spec (lo hi : K) (h : lo ≤ hi) : hi - lo ≤ (⌈hi - lo⌉₊ : K) ∧ ((⌈hi - lo⌉₊ : K) < hi - lo + 1) ∧ ∀ n : Nat, hi - lo ≤ (n : K) → ⌈hi - lo⌉₊ ≤ n :=
  ⟨Nat.le_ceil _, Nat.ceil_lt_add_one (sub_nonneg.mpr h), fun _ hn => Nat.ceil_le.mpr hn⟩
end focusBody

/-! ### more flip algebra: flips commute -/

/-- flips of two axes commute: the order in which axes are flipped does not matter -/
theorem flip_comm (a b : Nat) (pt : List K) : flipPoint a (flipPoint b pt) = flipPoint b (flipPoint a pt) := by
  apply List.ext_getElem
  · simp [flipPoint]
  · intro d h1 h2
    simp only [flipPoint, List.getElem_mapIdx]
    split <;> split <;> ring

/-- a flip keeps the number of coordinates of a point -/
theorem flip_length (axis : Nat) (pt : List K) : (flipPoint axis pt).length = pt.length := by simp [flipPoint]

/-! Not stated: a flip on an axis the points do not have. The model's `flipPoint` is total there (it would change nothing), the code is not
    (`vec[axis] = -1` raises `IndexError` for `axis ≥ dims`), and the correspondence only runs `axis < dims` — so the flip theorems are claims about
    axes the pose has, and nothing is claimed beyond. -/
end PoseVerif.Props.C15
