import PoseVerif.Proofs.C17Lemmas
import PoseVerif.Proofs.C19Lemmas
/-!
# C17 — feature representations equal their geometric definition

`mkPoint vs ok`: a point whose coordinates all carry the point's validity flag (how pose bodies build their masks).
Clauses about masks and NaN hold for any scalar record; the formula clauses are stated over ℝ (`C13.RS`), float rounding being outside them.
-/
namespace PoseVerif.Props.C17
open PoseVerif PoseVerif.Props.C13
variable {S : Type}
/-- distance: 0 as soon as one of the two points is missing -/
theorem distance_missing_zero (sc : Scalar S) (a b : List S) (oka okb : Bool) (hne : 0 < min a.length b.length) (hok : (oka && okb) = false) :
    distanceRep sc (mkPoint a oka) (mkPoint b okb) = sc.zero := by
  unfold distanceRep mvZeroFilled mvDistance mvUn mvSum
  simp only []
  rw [all_zipWith_false _ (fun _ _ => rfl) a b oka okb hne hok]
  rfl

/-- X/Y angle: `atan 0` as soon as one of the two points is missing (0 when `atan 0 = 0`) -/
theorem angle_missing_zero (sc : Scalar S) [Inhabited S] (atanF : S → S) (hat : atanF sc.zero = sc.zero) (a b : List S) (oka okb : Bool) (hok : (oka && okb) = false) :
    angleRep sc atanF (mkPoint a oka) (mkPoint b okb) = sc.zero := by
  unfold angleRep
  simp only []
  have hflag : ∀ i, ((List.zipWith (mvBin sc.sub) (mkPoint b okb) (mkPoint a oka)).getD i (default, false)).2 = false := by
    intro i
    simp only [List.getD_eq_getElem?_getD, List.getElem?_zipWith, mkPoint, List.getElem?_map]
    cases b[i]? <;> cases a[i]? <;> simp [mvBin, Bool.and_comm, hok]
  have : (mvFixNan sc (mvBin sc.div ((List.zipWith (mvBin sc.sub) (mkPoint b okb) (mkPoint a oka)).getD 1 (default, false))
      ((List.zipWith (mvBin sc.sub) (mkPoint b okb) (mkPoint a oka)).getD 0 (default, false)))).2 = false := by
    show ((_ : MV S).2 && _) = false
    rw [hflag 1]; rfl
  simp only [mvZeroFilled, this, Bool.false_eq_true, if_false, hat]

/-- point–line distance: 0 as soon as one of the three points is missing -/
theorem pointLine_missing_zero (sc : Scalar S) (a b c : List S) (oka okb okc : Bool) (hne : 0 < min a.length (min b.length c.length))
    (hok : (oka && okb && okc) = false) : pointLineRep sc (mkPoint a oka) (mkPoint b okb) (mkPoint c okc) = sc.zero := by
  have hab : 0 < min a.length b.length := by omega
  have hbc : 0 < min b.length c.length := by omega
  have hac : 0 < min a.length c.length := by omega
  have f1 : ∀ (p q : List S) (o1 o2 : Bool), 0 < min p.length q.length → (mvDistance sc (mkPoint p o1) (mkPoint q o2)).2 = (o1 && o2) := by
    intro p q o1 o2 h
    unfold mvDistance mvUn mvSum
    simp only []
    cases p with
    | nil => simp at h
    | cons x xs =>
      cases q with
      | nil => simp at h
      | cons y ys =>
        simp only [mkPoint, List.map_cons, List.zipWith_cons_cons, List.all_cons, mvBin]
        cases o1 <;> cases o2 <;> simp [List.all_eq_true, List.mem_iff_getElem, mvBin]
  unfold pointLineRep
  simp only [mvZeroFilled, mvFixNan, mvBin, mvUn, f1 a b oka okb hab, f1 b c okb okc hbc, f1 a c oka okc hac]
  have : (oka && okb && (okb && okc) && (oka && okc) && ((oka && okb && (okb && okc) && (oka && okc)) && (oka && okb)) && ((oka && okb && (okb && okc) && (oka && okc)) && (okb && okc)) &&
      ((oka && okb && (okb && okc) && (oka && okc)) && (oka && okc)) && (okb && okc)) = false := by
    cases oka <;> cases okb <;> cases okc <;> simp_all
  simp only [this, Bool.false_eq_true, if_false]

/-- inner angle: 0 as soon as one of the three points is missing -/
theorem innerAngle_missing_zero (sc : Scalar S) (h0 : sc.isNaN sc.zero = false) (acosF : S → S) (a b c : List S) (oka okb okc : Bool)
    (hne : 0 < min a.length (min b.length c.length)) (hok : (oka && okb && okc) = false) :
    innerAngleRep sc acosF (mkPoint a oka) (mkPoint b okb) (mkPoint c okc) = sc.zero := by
  cases a with
  | nil => simp at hne
  | cons x xs =>
    cases b with
    | nil => simp at hne
    | cons y ys =>
      cases c with
      | nil => simp at hne
      | cons z zs =>
        unfold innerAngleRep
        simp only []
        have hfl : (mvSum sc (List.zipWith (mvBin sc.mul) (mvNormalize sc (List.zipWith (mvBin sc.sub) (mkPoint (x :: xs) oka) (mkPoint (y :: ys) okb)))
            (mvNormalize sc (List.zipWith (mvBin sc.sub) (mkPoint (z :: zs) okc) (mkPoint (y :: ys) okb))))).2 = false := by
          simp only [mvSum, mvNormalize, mkPoint, List.map_cons, List.zipWith_cons_cons, List.all_cons, mvBin, mvUn]
          cases oka <;> cases okb <;> cases okc <;> simp_all
        simp only [mvZeroFilled, mvUn, hfl, Bool.false_eq_true, if_false, h0]

theorem innerAngle_not_nan (sc : Scalar S) (h0 : sc.isNaN sc.zero = false) (acosF : S → S) (p1 p2 p3 : List (MV S)) :
    sc.isNaN (innerAngleRep sc acosF p1 p2 p3) = false := by
  unfold innerAngleRep
  simp only []
  split
  · exact h0
  · rename_i h; simpa using h

theorem pointLine_not_nan (sc : Scalar S) (h0 : sc.isNaN sc.zero = false) (p1 p2 p3 : List (MV S)) : sc.isNaN (pointLineRep sc p1 p2 p3) = false := by
  unfold pointLineRep mvZeroFilled mvFixNan
  simp only []
  split
  · split
    · exact h0
    · rename_i h; simpa using h
  · exact h0

/-- the argument handed to `atan` is never NaN -/
theorem angle_argument_not_nan (sc : Scalar S) (h0 : sc.isNaN sc.zero = false) (x : MV S) : sc.isNaN (mvZeroFilled sc (mvFixNan sc x)) = false := by
  unfold mvZeroFilled mvFixNan
  simp only []
  split
  · split
    · exact h0
    · rename_i h; simpa using h
  · exact h0

/-- **distance** = Euclidean norm of the difference -/
theorem distance_formula (l : List (ℝ × ℝ × ℝ)) :
    distanceRep RS (mkPoint (c1 l) true) (mkPoint (c2 l) true) = Real.sqrt ((l.map fun t => (t.1 - t.2.1) * (t.1 - t.2.1)).sum) := by
  unfold distanceRep
  rw [mvDistance_valid]
  rfl

/-- **X/Y angle** = `atan(Δy / Δx)` -/
theorem angle_formula (atanF : ℝ → ℝ) (a0 a1 b0 b1 : ℝ) (as bs : List ℝ) :
    angleRep RS atanF (mkPoint (a0 :: a1 :: as) true) (mkPoint (b0 :: b1 :: bs) true) = atanF ((b1 - a1) / (b0 - a0)) := by
  simp [angleRep, mkPoint, mvBin, mvFixNan, mvZeroFilled]

/-- **inner angle** at `p2` = `acos` of the normalised dot product of `p1 − p2` and `p3 − p2` -/
theorem innerAngle_formula (acosF : ℝ → ℝ) (l : List (ℝ × ℝ × ℝ)) :
    innerAngleRep RS acosF (mkPoint (c1 l) true) (mkPoint (c2 l) true) (mkPoint (c3 l) true) =
      acosF ((l.map fun t => (t.1 - t.2.1) * (t.2.2 - t.2.1)).sum /
        (Real.sqrt ((l.map fun t => (t.1 - t.2.1) * (t.1 - t.2.1)).sum) * Real.sqrt ((l.map fun t => (t.2.2 - t.2.1) * (t.2.2 - t.2.1)).sum))) := by
  unfold innerAngleRep mvNormalize mvSum mkPoint
  simp only [List.zipWith_map_left, List.zipWith_map_right, List.zipWith_self, List.map_map, mvBin, mvUn, sumList_eq, RS_sqrt, List.all_map, Function.comp_def,
    mvZeroFilled, RS_isNaN, RS_mul, RS_sub, RS_div, Bool.and_self, Bool.and_true]
  have hall : ∀ (q : (ℝ × ℝ × ℝ) → Bool), (∀ t, q t = true) → l.all q = true := by
    intro q hq; simp [List.all_eq_true, hq]
  simp only [hall _ (fun _ => rfl), if_true, Bool.false_eq_true, if_false]
  congr 1
  set m1 := Real.sqrt ((l.map fun t => (t.1 - t.2.1) * (t.1 - t.2.1)).sum)
  set m2 := Real.sqrt ((l.map fun t => (t.2.2 - t.2.1) * (t.2.2 - t.2.1)).sum)
  have : (l.map fun t => (t.1 - t.2.1) / m1 * ((t.2.2 - t.2.1) / m2)) = (l.map fun t => (t.1 - t.2.1) * (t.2.2 - t.2.1)).map fun x => x / (m1 * m2) := by
    rw [List.map_map]; apply List.map_congr_left; intro t _; simp only [Function.comp_def]; rw [div_mul_div_comm]
  rw [this, sum_div_const]
  rw [if_pos (hall (fun _ => true && true) (fun _ => rfl))]

/-- **point–line distance**: Heron's height over the side `p2 p3` is the distance from `p1` to the line through `p2` and `p3`,
    `√(|u|²|w|² − (u·w)²) / |w|` with `u = p1 − p2`, `w = p3 − p2` (any number of coordinates), for distinct `p2 ≠ p3`. -/
theorem pointLine_formula (l : List (ℝ × ℝ × ℝ)) :
    let A := (l.map fun t => (t.1 - t.2.1) * (t.1 - t.2.1)).sum
    let B := (l.map fun t => (t.2.2 - t.2.1) * (t.2.2 - t.2.1)).sum
    let T := (l.map fun t => (t.1 - t.2.1) * (t.2.2 - t.2.1)).sum
    pointLineRep RS (mkPoint (c1 l) true) (mkPoint (c2 l) true) (mkPoint (c3 l) true) = Real.sqrt (A * B - T * T) / Real.sqrt B := by
  intro A B T
  unfold pointLineRep
  simp only [c1, c2, c3, mvDistance_valid, mvBin, mvUn, mvFixNan, mvZeroFilled, RS_isNaN, Bool.and_self, if_true, Bool.false_eq_true, if_false,
    RS_add, RS_sub, RS_mul, RS_div, RS_sqrt, RS_ofNat, Nat.cast_ofNat]
  have hB' : (l.map fun t => (t.2.1 - t.2.2) * (t.2.1 - t.2.2)).sum = B := by
    show _ = (l.map fun t => (t.2.2 - t.2.1) * (t.2.2 - t.2.1)).sum
    congr 1; apply List.map_congr_left; intro t _; ring
  have hC := sum_sq_diff l
  rw [hB', hC]
  have hA0 : 0 ≤ A := List.sum_nonneg (by intro x hx; obtain ⟨t, _, rfl⟩ := List.mem_map.mp hx; exact mul_self_nonneg _)
  have hB0 : 0 ≤ B := List.sum_nonneg (by intro x hx; obtain ⟨t, _, rfl⟩ := List.mem_map.mp hx; exact mul_self_nonneg _)
  have hC0 : 0 ≤ A + B - 2 * T := by
    rw [← hC]; exact List.sum_nonneg (by intro x hx; obtain ⟨t, _, rfl⟩ := List.mem_map.mp hx; exact mul_self_nonneg _)
  set a := Real.sqrt A with ha
  set b := Real.sqrt B with hb
  set c := Real.sqrt (A + B - 2 * T) with hc
  have haa : a * a = A := Real.mul_self_sqrt hA0
  have hbb : b * b = B := Real.mul_self_sqrt hB0
  have hcc : c * c = A + B - 2 * T := Real.mul_self_sqrt hC0
  have key : (a + b + c) / 2 * ((a + b + c) / 2 - a) * ((a + b + c) / 2 - b) * ((a + b + c) / 2 - c) = (A * B - T * T) / 4 := by
    have e : (a + b + c) / 2 * ((a + b + c) / 2 - a) * ((a + b + c) / 2 - b) * ((a + b + c) / 2 - c) =
        (2 * (a * a) * (b * b) + 2 * (b * b) * (c * c) + 2 * (c * c) * (a * a) - (a * a) * (a * a) - (b * b) * (b * b) - (c * c) * (c * c)) / 16 := by ring
    rw [e, haa, hbb, hcc]; ring
  rw [key, Real.sqrt_div' _ (by norm_num : (0 : ℝ) ≤ 4), sqrt_four]
  ring

/-- the limb index lists: every limb `(a, b)` of every component, shifted by the component's offset, components in header order -/
theorem limbPoints_spec (comps : List Comp) :
    limbPoints comps =
      ((comps.zip (offsFrom 0 comps)).flatMap (fun x => x.1.limbs.map fun l => l.1 + x.2),
       (comps.zip (offsFrom 0 comps)).flatMap (fun x => x.1.limbs.map fun l => l.2 + x.2)) := by
  unfold limbPoints
  have gen : ∀ (cs : List Comp) (acc : List Nat × List Nat × Nat),
      cs.foldl (fun (acc : List Nat × List Nat × Nat) c =>
        (acc.1 ++ c.limbs.map (fun l => l.1 + acc.2.2), acc.2.1 ++ c.limbs.map (fun l => l.2 + acc.2.2), acc.2.2 + c.points.length)) acc =
      (acc.1 ++ (cs.zip (offsFrom acc.2.2 cs)).flatMap (fun x => x.1.limbs.map fun l => l.1 + x.2),
       acc.2.1 ++ (cs.zip (offsFrom acc.2.2 cs)).flatMap (fun x => x.1.limbs.map fun l => l.2 + x.2),
       acc.2.2 + totalPts cs) := by
    intro cs; induction cs with
    | nil => intro acc; simp [offsFrom, totalPts]
    | cons c cs ih =>
      intro acc
      simp only [List.foldl_cons, ih, offsFrom, List.zip_cons_cons, List.flatMap_cons, List.append_assoc, totalPts, List.map_cons, List.sum_cons]
      refine Prod.ext rfl (Prod.ext rfl ?_)
      simp only [totalPts]; omega
  have := gen comps ([], [], 0)
  simp only [this, List.nil_append]

/-- every limb end is a point of the header when every limb of every component stays inside its component -/
theorem limbPoints_in_range (comps : List Comp) (h : ∀ c ∈ comps, ∀ l ∈ c.limbs, l.1 < c.points.length ∧ l.2 < c.points.length) :
    (∀ x ∈ (limbPoints comps).1, x < totalPts comps) ∧ (∀ x ∈ (limbPoints comps).2, x < totalPts comps) ∧ (limbPoints comps).1.length = (limbPoints comps).2.length := by
  rw [limbPoints_spec]
  refine ⟨?_, ?_, ?_⟩
  · intro x hx
    obtain ⟨⟨c, off⟩, hmem, hx⟩ := List.mem_flatMap.mp hx
    obtain ⟨l, hl, rfl⟩ := List.mem_map.mp hx
    obtain ⟨hc, hoff⟩ := offsFrom_mem comps 0 c off hmem
    have := (h c hc l hl).1
    simp only [] at *; omega
  · intro x hx
    obtain ⟨⟨c, off⟩, hmem, hx⟩ := List.mem_flatMap.mp hx
    obtain ⟨l, hl, rfl⟩ := List.mem_map.mp hx
    obtain ⟨hc, hoff⟩ := offsFrom_mem comps 0 c off hmem
    have := (h c hc l hl).2
    simp only [] at *; omega
  · simp only [List.length_flatMap, List.length_map]

/-- the joint triples are exactly the chains: a limb `(p1, p2)` followed by a limb `(p2, p4)` -/
theorem mem_trianglePoints (l1 l2 : List Nat) (t : Nat × Nat × Nat) :
    t ∈ trianglePoints l1 l2 ↔ ∃ a ∈ l1.zip l2, ∃ b ∈ l1.zip l2, a.2 = b.1 ∧ t = (a.1, a.2, b.2) := by
  unfold trianglePoints
  simp only [List.mem_flatMap, List.mem_map, List.mem_filter, beq_iff_eq]
  constructor
  · rintro ⟨a, ha, b, ⟨hb, hab⟩, rfl⟩; exact ⟨a, ha, b, hb, hab, rfl⟩
  · rintro ⟨a, ha, b, hb, hab, rfl⟩; exact ⟨a, ha, b, ⟨hb, hab⟩, rfl⟩

/-- **the advertised output size is the number of rows**: `n1` point blocks of `points × letters` rows, `n2` limb blocks, `n3` triple blocks -/
theorem output_size_is_row_count {α : Type} (comps : List Comp) (bs1 bs2 bs3 : List (List α))
    (h1 : ∀ x ∈ bs1, x.length = totalPts comps * ((comps.headD default).format).length)
    (h2 : ∀ x ∈ bs2, x.length = (limbPoints comps).1.length)
    (h3 : ∀ x ∈ bs3, x.length = (trianglePoints (limbPoints comps).1 (limbPoints comps).2).length) :
    (bs1 ++ bs2 ++ bs3).flatten.length = repOutputSize comps bs1.length bs2.length bs3.length := by
  simp only [List.flatten_append, List.length_append, flatten_length_const _ _ h1, flatten_length_const _ _ h2, flatten_length_const _ _ h3, repOutputSize, totalPts]

/-- **points block layout**: row `point · dims + dim` holds coordinate `dim` of point `point` over (batch, len), zero-filled -/
theorem pointsRep_row (sc : Scalar S) [Inhabited S] (pts : List (List (List (List (MV S))))) (dims p d : Nat) (hp : p < pts.length) (hd : d < dims) :
    (pointsRepRows sc pts dims).length = pts.length * dims ∧
    (pointsRepRows sc pts dims).getD (p * dims + d) [] = pts[p].map (List.map fun pt => mvZeroFilled sc (pt.getD d (default, false))) := by
  unfold pointsRepRows
  refine ⟨?_, ?_⟩
  · rw [List.length_flatMap]
    simp only [List.length_map, List.length_range]
    induction pts with
    | nil => simp
    | cons x xs ih => simp [Nat.add_mul]; omega
  · rw [flatMap_getD_block _ dims (by intro x; simp) [] pts p d hp hd]
    simp [List.getD_eq_getElem?_getD, hd]

/-- `group_embeds`: entry `(batch, len, e)` of the result is entry `(batch, len)` of row `e` -/
theorem groupEmbeds_entry [Inhabited S] (blocks : List (List (List (List S)))) (B L b l e : Nat) (hb : b < B) (hl : l < L) (he : e < blocks.flatten.length) :
    (((groupEmbeds blocks B L).getD b []).getD l []).getD e default = ((blocks.flatten.getD e []).getD b []).getD l default ∧
    (groupEmbeds blocks B L).length = B ∧ ((groupEmbeds blocks B L).getD b []).length = L ∧ (((groupEmbeds blocks B L).getD b []).getD l []).length = blocks.flatten.length := by
  unfold groupEmbeds
  simp only []
  generalize blocks.flatten = rows at he ⊢
  have h1 : ((List.range B).map fun b => (List.range L).map fun l => rows.map fun r => (r.getD b []).getD l default).getD b [] =
      (List.range L).map fun l => rows.map fun r => (r.getD b []).getD l default := by
    simp [List.getD_eq_getElem?_getD, hb]
  have h2 : ((List.range L).map fun l => rows.map fun r => (r.getD b []).getD l default).getD l [] = rows.map fun r => (r.getD b []).getD l default := by
    simp [List.getD_eq_getElem?_getD, hl]
  rw [h1, h2]
  refine ⟨?_, by simp, by simp, by simp⟩
  simp [List.getD_eq_getElem?_getD, List.getElem?_eq_getElem he]

/-! ### the assembled representation, end to end -/

/-- **assembled shape**: `(batch, len, output_size)` with the advertised `output_size` -/
theorem forward_shape (sc : Scalar S) (atanF acosF : S → S) [Inhabited S] (comps : List Comp) (n1 : Nat) (m2 : List Rep2) (m3 : List Rep3)
    (pts : List (List (List (List (MV S))))) (B L b l : Nat) (out : List (List (List S))) (hN : pts.length = totalPts comps)
    (hlen : (limbPoints comps).1.length = (limbPoints comps).2.length)
    (h : poseRepresentation sc atanF acosF comps n1 m2 m3 pts B L = some out) (hb : b < B) (hl : l < L) :
    out.length = B ∧ (out.getD b []).length = L ∧ ((out.getD b []).getD l []).length = repOutputSize comps n1 m2.length m3.length := by
  rw [poseRepresentation_some sc atanF acosF comps n1 m2 m3 pts B L out h]
  obtain ⟨h1, h2, h3⟩ := rows_lengths sc atanF acosF n1 m2 m3 pts ((comps.headD default).format).length (limbPoints comps).1 (limbPoints comps).2
    (trianglePoints (limbPoints comps).1 (limbPoints comps).2) B L
  unfold groupEmbeds
  simp only []
  refine ⟨by simp, by simp [List.getD_eq_getElem?_getD, hb], ?_⟩
  simp only [List.getD_eq_getElem?_getD, List.getElem?_map, List.getElem?_range hb, List.getElem?_range hl, Option.map_some, Option.getD_some, List.length_map]
  simp only [List.flatten_append, List.length_append, h1, h2, h3, repOutputSize, hN, totalPts, List.length_zip, hlen, Nat.min_self]

/-- **limb features**: entry `(batch, len, n1·points·letters + m·limbs + k)` is limb module `m` applied to the two ends of limb `k` (header order, component offsets added) -/
theorem forward_limb_entry (sc : Scalar S) (atanF acosF : S → S) [Inhabited S] (comps : List Comp) (n1 : Nat) (m2 : List Rep2) (m3 : List Rep3)
    (pts : List (List (List (List (MV S))))) (B L b l m k : Nat) (out : List (List (List S)))
    (h : poseRepresentation sc atanF acosF comps n1 m2 m3 pts B L = some out) (hb : b < B) (hl : l < L)
    (hm : m < m2.length) (hk : k < ((limbPoints comps).1.zip (limbPoints comps).2).length) :
    ((out.getD b []).getD l []).getD (n1 * (pts.length * ((comps.headD default).format).length) + (m * ((limbPoints comps).1.zip (limbPoints comps).2).length + k)) default =
      (m2[m]).apply sc atanF (cellPt pts (((limbPoints comps).1.zip (limbPoints comps).2).getD k (0, 0)).1 b l)
        (cellPt pts (((limbPoints comps).1.zip (limbPoints comps).2).getD k (0, 0)).2 b l) := by
  rw [poseRepresentation_some sc atanF acosF comps n1 m2 m3 pts B L out h]
  obtain ⟨h1, h2, h3⟩ := rows_lengths sc atanF acosF n1 m2 m3 pts ((comps.headD default).format).length (limbPoints comps).1 (limbPoints comps).2
    (trianglePoints (limbPoints comps).1 (limbPoints comps).2) B L
  generalize (limbPoints comps).1 = l1 at *
  generalize (limbPoints comps).2 = l2 at *
  have hin : m * (l1.zip l2).length + k < (m2.map fun m => rep2Rows (m.apply sc atanF) pts l1 l2 B L).flatten.length := by
    rw [h2]
    calc m * (l1.zip l2).length + k < m * (l1.zip l2).length + (l1.zip l2).length := by omega
      _ = (m + 1) * (l1.zip l2).length := by rw [Nat.add_mul, Nat.one_mul]
      _ ≤ m2.length * (l1.zip l2).length := Nat.mul_le_mul_right _ hm
  have hrow : (List.replicate n1 (pointsRepRows sc pts ((comps.headD default).format).length) ++ (m2.map fun m => rep2Rows (m.apply sc atanF) pts l1 l2 B L)
      ++ (m3.map fun m => rep3Rows (m.apply sc acosF) pts (trianglePoints l1 l2) B L)).flatten.getD
        (n1 * (pts.length * ((comps.headD default).format).length) + (m * (l1.zip l2).length + k)) [] =
      (List.range B).map fun b => (List.range L).map fun l => (m2[m]).apply sc atanF (cellPt pts ((l1.zip l2).getD k (0, 0)).1 b l) (cellPt pts ((l1.zip l2).getD k (0, 0)).2 b l) := by
    rw [List.flatten_append, List.flatten_append, ← h1, getD_append_mid _ _ _ _ _ hin]
    rw [flatten_getD_block (l1.zip l2).length [] _ m k (by
      intro x hx; obtain ⟨m', _, rfl⟩ := List.mem_map.mp hx; exact rep2Rows_length _ _ _ _ _ _) (by simpa using hm) hk]
    simp only [List.getD_eq_getElem?_getD, List.getElem?_map, List.getElem?_eq_getElem hm, Option.map_some, Option.getD_some, rep2Rows, List.getElem?_eq_getElem hk]
  have hlt : n1 * (pts.length * ((comps.headD default).format).length) + (m * (l1.zip l2).length + k) <
      (List.replicate n1 (pointsRepRows sc pts ((comps.headD default).format).length) ++ (m2.map fun m => rep2Rows (m.apply sc atanF) pts l1 l2 B L)
      ++ (m3.map fun m => rep3Rows (m.apply sc acosF) pts (trianglePoints l1 l2) B L)).flatten.length := by
    simp only [List.flatten_append, List.length_append, h1]
    omega
  rw [(groupEmbeds_entry _ B L b l _ hb hl hlt).1, hrow]
  exact grid_getD B L b l hb hl _

/-- **joint-triple features**: entry `(batch, len, n1·points·letters + n2·limbs + m·triples + k)` is triple module `m` applied to the three points of chain `k` -/
theorem forward_triple_entry (sc : Scalar S) (atanF acosF : S → S) [Inhabited S] (comps : List Comp) (n1 : Nat) (m2 : List Rep2) (m3 : List Rep3)
    (pts : List (List (List (List (MV S))))) (B L b l m k : Nat) (out : List (List (List S)))
    (h : poseRepresentation sc atanF acosF comps n1 m2 m3 pts B L = some out) (hb : b < B) (hl : l < L)
    (hm : m < m3.length) (hk : k < (trianglePoints (limbPoints comps).1 (limbPoints comps).2).length) :
    ((out.getD b []).getD l []).getD (n1 * (pts.length * ((comps.headD default).format).length) + m2.length * ((limbPoints comps).1.zip (limbPoints comps).2).length
        + (m * (trianglePoints (limbPoints comps).1 (limbPoints comps).2).length + k)) default =
      (m3[m]).apply sc acosF (cellPt pts ((trianglePoints (limbPoints comps).1 (limbPoints comps).2).getD k (0, 0, 0)).1 b l)
        (cellPt pts ((trianglePoints (limbPoints comps).1 (limbPoints comps).2).getD k (0, 0, 0)).2.1 b l)
        (cellPt pts ((trianglePoints (limbPoints comps).1 (limbPoints comps).2).getD k (0, 0, 0)).2.2 b l) := by
  rw [poseRepresentation_some sc atanF acosF comps n1 m2 m3 pts B L out h]
  obtain ⟨h1, h2, h3⟩ := rows_lengths sc atanF acosF n1 m2 m3 pts ((comps.headD default).format).length (limbPoints comps).1 (limbPoints comps).2
    (trianglePoints (limbPoints comps).1 (limbPoints comps).2) B L
  generalize (limbPoints comps).1 = l1 at *
  generalize (limbPoints comps).2 = l2 at *
  generalize trianglePoints l1 l2 = tri at *
  have hin : m * tri.length + k < (m3.map fun m => rep3Rows (m.apply sc acosF) pts tri B L).flatten.length := by
    rw [h3]
    calc m * tri.length + k < m * tri.length + tri.length := by omega
      _ = (m + 1) * tri.length := by rw [Nat.add_mul, Nat.one_mul]
      _ ≤ m3.length * tri.length := Nat.mul_le_mul_right _ hm
  have hrow : (List.replicate n1 (pointsRepRows sc pts ((comps.headD default).format).length) ++ (m2.map fun m => rep2Rows (m.apply sc atanF) pts l1 l2 B L)
      ++ (m3.map fun m => rep3Rows (m.apply sc acosF) pts tri B L)).flatten.getD
        (n1 * (pts.length * ((comps.headD default).format).length) + m2.length * (l1.zip l2).length + (m * tri.length + k)) [] =
      (List.range B).map fun b => (List.range L).map fun l => (m3[m]).apply sc acosF (cellPt pts (tri.getD k (0, 0, 0)).1 b l) (cellPt pts (tri.getD k (0, 0, 0)).2.1 b l)
        (cellPt pts (tri.getD k (0, 0, 0)).2.2 b l) := by
    rw [List.flatten_append, List.flatten_append, ← h1, ← h2, getD_append_last]
    rw [flatten_getD_block tri.length [] _ m k (by
      intro x hx; obtain ⟨m', _, rfl⟩ := List.mem_map.mp hx; exact rep3Rows_length _ _ _ _ _) (by simpa using hm) hk]
    simp only [List.getD_eq_getElem?_getD, List.getElem?_map, List.getElem?_eq_getElem hm, Option.map_some, Option.getD_some, rep3Rows, List.getElem?_eq_getElem hk]
  have hlt : n1 * (pts.length * ((comps.headD default).format).length) + m2.length * (l1.zip l2).length + (m * tri.length + k) <
      (List.replicate n1 (pointsRepRows sc pts ((comps.headD default).format).length) ++ (m2.map fun m => rep2Rows (m.apply sc atanF) pts l1 l2 B L)
      ++ (m3.map fun m => rep3Rows (m.apply sc acosF) pts tri B L)).flatten.length := by
    simp only [List.flatten_append, List.length_append, h1, h2]
    omega
  rw [(groupEmbeds_entry _ B L b l _ hb hl hlt).1, hrow]
  exact grid_getD B L b l hb hl _

/-- **point features**: entry `(batch, len, c·points·letters + p·letters + d)` of points block `c` is coordinate `d` of point `p`, zero-filled -/
theorem forward_point_entry (sc : Scalar S) (atanF acosF : S → S) [Inhabited S] (comps : List Comp) (n1 : Nat) (m2 : List Rep2) (m3 : List Rep3)
    (pts : List (List (List (List (MV S))))) (B L b l c p d : Nat) (out : List (List (List S)))
    (h : poseRepresentation sc atanF acosF comps n1 m2 m3 pts B L = some out) (hb : b < B) (hl : l < L)
    (hc : c < n1) (hp : p < pts.length) (hd : d < ((comps.headD default).format).length)
    (hB : b < (pts.getD p []).length) (hL : l < ((pts.getD p []).getD b []).length) :
    ((out.getD b []).getD l []).getD (c * (pts.length * ((comps.headD default).format).length) + (p * ((comps.headD default).format).length + d)) default =
      mvZeroFilled sc ((cellPt pts p b l).getD d (default, false)) := by
  rw [poseRepresentation_some sc atanF acosF comps n1 m2 m3 pts B L out h]
  obtain ⟨h1, h2, h3⟩ := rows_lengths sc atanF acosF n1 m2 m3 pts ((comps.headD default).format).length (limbPoints comps).1 (limbPoints comps).2
    (trianglePoints (limbPoints comps).1 (limbPoints comps).2) B L
  generalize (limbPoints comps).1 = l1 at *
  generalize (limbPoints comps).2 = l2 at *
  generalize trianglePoints l1 l2 = tri at *
  generalize ((comps.headD default).format).length = dims at *
  have hj : p * dims + d < pts.length * dims := by
    calc p * dims + d < p * dims + dims := by omega
      _ = (p + 1) * dims := by rw [Nat.add_mul, Nat.one_mul]
      _ ≤ pts.length * dims := Nat.mul_le_mul_right _ hp
  have hin : c * (pts.length * dims) + (p * dims + d) < (List.replicate n1 (pointsRepRows sc pts dims)).flatten.length := by
    rw [h1]
    calc c * (pts.length * dims) + (p * dims + d) < c * (pts.length * dims) + pts.length * dims := by omega
      _ = (c + 1) * (pts.length * dims) := by rw [Nat.add_mul, Nat.one_mul]
      _ ≤ n1 * (pts.length * dims) := Nat.mul_le_mul_right _ hc
  have hrow : (List.replicate n1 (pointsRepRows sc pts dims) ++ (m2.map fun m => rep2Rows (m.apply sc atanF) pts l1 l2 B L)
      ++ (m3.map fun m => rep3Rows (m.apply sc acosF) pts tri B L)).flatten.getD (c * (pts.length * dims) + (p * dims + d)) [] =
      pts[p].map (List.map fun pt => mvZeroFilled sc (pt.getD d (default, false))) := by
    rw [List.flatten_append, List.flatten_append, List.append_assoc]
    simp only [List.getD_eq_getElem?_getD]
    rw [List.getElem?_append_left hin]
    have := flatten_getD_block (pts.length * dims) [] (List.replicate n1 (pointsRepRows sc pts dims)) c (p * dims + d) (by
      intro x hx; rw [(List.mem_replicate.mp hx).2]; exact (pointsRep_row sc pts dims p d hp hd).1) (by simpa using hc) hj
    simp only [List.getD_eq_getElem?_getD] at this
    rw [this, List.getElem?_replicate, if_pos hc]
    exact (pointsRep_row sc pts dims p d hp hd).2
  have hlt : c * (pts.length * dims) + (p * dims + d) <
      (List.replicate n1 (pointsRepRows sc pts dims) ++ (m2.map fun m => rep2Rows (m.apply sc atanF) pts l1 l2 B L)
      ++ (m3.map fun m => rep3Rows (m.apply sc acosF) pts tri B L)).flatten.length := by
    simp only [List.flatten_append, List.length_append]
    omega
  rw [(groupEmbeds_entry _ B L b l _ hb hl hlt).1, hrow]
  unfold cellPt
  simp only [List.getD_eq_getElem?_getD, List.getElem?_eq_getElem hp, Option.getD_some] at hB hL ⊢
  simp only [List.getElem?_map, List.getElem?_eq_getElem hB, Option.map_some, Option.getD_some] at hL ⊢
  simp only [List.getElem?_eq_getElem hL, Option.map_some, Option.getD_some]


/-! non-vacuity: a three-point chain `0 → 1 → 2`, one batch entry, one time step, natural-number "coordinates" -/
def chainComps : List Comp := [{ name := "c", format := "XYC", points := ["a", "b", "c"], limbs := [(0, 1), (1, 2)], colors := [] }]
def chainPts : List (List (List (List (MV Nat)))) := [[[[(3, true), (4, true), (1, true)]]], [[[(0, true), (0, true), (1, true)]]], [[[(3, false), (9, false), (1, false)]]]]
example : (poseRepresentation C19.natSc id id chainComps 0 [.distance] [] chainPts 1 1) = some [[[5, 0]]] := by decide +kernel
example : (poseRepresentation C19.natSc id id [{ name := "c", format := "XYC", points := ["a", "b"], limbs := [(0, 1)], colors := [] }] 0 [.distance] [] chainPts 1 1) = none := by decide +kernel

end PoseVerif.Props.C17
