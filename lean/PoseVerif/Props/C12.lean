import PoseVerif.Proofs.BodyRect
import PoseVerif.Proofs.HeaderShape
import PoseVerif.Model.PoseSeq
import PoseVerif.Props.C01
import PoseVerif.Model.Normalize
/-!
# C12 — every pose reachable through the API stays well-formed

`PInv F P D p`: every component's format has `D + 1` letters, and the body is a constructor-made body of shape `(F, P, total header points, D)`:
coordinates `(F, P, N, D)`, confidences `(F, P, N)`, and a point missing, in all its `D` coordinates, exactly when its confidence is 0
(`BInv.consistent` is `missing = deriveMissing …`, spelled out index by index in `C08.missing_all_dims_iff_conf_zero`).
`step_inv`: every operation of the instruction set `POp` whose precondition holds keeps it; `run_inv`: so does every sequence.
-/
namespace PoseVerif.Props.C12
open PoseVerif
variable {S : Type}

structure PInv (isZero : S → Bool) (F P D : Nat) (p : PPose S) : Prop where
  formats : ∀ c ∈ p.comps, c.format.length = D + 1
  body : BInv isZero F P (totalPts p.comps) D p.body

def WF (isZero : S → Bool) (p : PPose S) : Prop := ∃ F P D, PInv isZero F P D p

/-- frames, people, header points, coordinates as the operations themselves measure them -/
def nF (p : PPose S) : Nat := p.body.conf.length
def nP (p : PPose S) : Nat := (p.body.conf.headD []).length
def nN (p : PPose S) : Nat := totalPts p.comps
def nD (p : PPose S) : Nat := numDimsBody p.body

/-- a recomputation of the coordinates that keeps the array shape (what the normalisers do when their preconditions hold) -/
def ShapePreserving (T : A4 S → A4 S) : Prop := ∀ d F P N D, Rect4 F P N D d → Rect4 F P N D (T d)

/-- the individual preconditions named by the property (and two facts about the scalar type for `bbox`: 0 is zero, 1 is not) -/
def Pre (sc : Scalar S) (isZero : S → Bool) : POp S → PPose S → Prop
  | .getComponents _ _, p => 0 < nF p ∧ 0 < nP p
  | .removeComponents _ _, p => 0 < nF p ∧ 0 < nP p
  | .sliceStep k, _ => 0 < k
  | .matmul m, p => 0 < nF p ∧ 0 < nP p ∧ 0 < nN p ∧ 0 < nD p ∧ (m.headD []).length = nD p
  | .transform T, _ => ShapePreserving T
  | .bbox, p => 0 < nF p ∧ 0 < nP p ∧ 0 < nN p ∧ isZero sc.zero = true ∧ isZero (sc.ofNat 1) = false
  | .interpolate _ _, p => 2 ≤ nF p ∧ 0 < nP p ∧ 0 < nN p
  | _, _ => True

theorem derive_of_rect (isZero : S → Bool) {F P N D : Nat} {d d' : A4 S} {c : A3 S} (hd : Rect4 F P N D d) (hd' : Rect4 F P N D d') (hc : Rect3 F P N c) :
    deriveMissing isZero d' c = deriveMissing isZero d c := by
  rw [deriveMissing_eq, deriveMissing_eq]
  refine F3.zipWith_eq (RectL.toF3 hd' hd hc) _ _ ?_
  intro fr' fr cf ⟨h1, h2, h3⟩
  refine F3.zipWith_eq (RectL.toF3 h1 h2 h3) _ _ ?_
  intro pe' pe cp ⟨h4, h5, h6⟩
  have h6' : RectL N (fun _ : S => True) cp := ⟨h6, fun _ _ => trivial⟩
  refine F3.zipWith_eq (RectL.toF3 h4 h5 h6') _ _ ?_
  intro pt' pt cc ⟨h7, h8, _⟩
  rw [kpt_eq_replicate, kpt_eq_replicate, h7, h8]

theorem totalPts_bboxComps (comps : List Comp) : totalPts (bboxComps comps) = 2 * comps.length := by
  induction comps with
  | nil => rfl
  | cons c cs ih =>
    simp only [bboxComps, totalPts, List.map_cons, List.sum_cons, List.length_cons] at ih ⊢
    simp only [List.length_cons, List.length_nil]
    omega

section
variable (sc : Scalar S) (isZero : S → Bool) [Inhabited S]

theorem dims_of_inv {F P D : Nat} {p : PPose S} (h : PInv isZero F P D p) :
    nF p = F ∧ (0 < F → nP p = P) ∧ (0 < F → 0 < P → 0 < nN p → nD p = D) :=
  ⟨h.body.conf.1, fun hF => numPeople_of_rect h.body.conf hF, fun hF hP hN => numDims_of_rect h.body.data hF hP hN⟩

/-- **One step**: an operation whose precondition holds maps a well-formed pose to a well-formed pose (whenever it returns one). -/
theorem step_inv (op : POp S) {p p' : PPose S} (hwf : WF isZero p) (hpre : Pre sc isZero op p) (hstep : op.apply sc isZero p = some p') : WF isZero p' := by
  obtain ⟨F, P, D, h⟩ := hwf
  obtain ⟨hF, hP, hD⟩ := dims_of_inv isZero h
  cases op with
  | getComponents req pts =>
    simp only [POp.apply, Option.bind_eq_bind, Option.bind_eq_some_iff, Option.pure_def, Option.some.injEq] at hstep
    obtain ⟨⟨comps', ixs⟩, hsel, body', hgp, rfl⟩ := hstep
    obtain ⟨h1, h2, h3⟩ := getComponents_shape _ _ _ _ _ hsel
    obtain ⟨hF0, hP0⟩ := hpre
    rw [hF] at hF0
    rw [hP hF0] at hP0
    obtain ⟨hb, _⟩ := (getPoints_inv .numpy h.body hF0 hP0 ixs).1 body' hgp
    refine ⟨F, P, D, ?_, ?_⟩
    · intro c' hc'
      obtain ⟨c, hc, hfmt, _⟩ := h3 c' hc'
      rw [hfmt]; exact h.formats c hc
    · rw [h1] at hb; exact hb
  | removeComponents rm pts =>
    simp only [POp.apply, Option.bind_eq_bind, Option.bind_eq_some_iff, Option.pure_def, Option.some.injEq] at hstep
    obtain ⟨⟨comps', ixs⟩, hsel, body', hgp, rfl⟩ := hstep
    unfold removeComponents at hsel
    obtain ⟨h1, h2, h3⟩ := getComponents_shape _ _ _ _ _ hsel
    obtain ⟨hF0, hP0⟩ := hpre
    rw [hF] at hF0
    rw [hP hF0] at hP0
    obtain ⟨hb, _⟩ := (getPoints_inv .numpy h.body hF0 hP0 ixs).1 body' hgp
    refine ⟨F, P, D, ?_, ?_⟩
    · intro c' hc'
      obtain ⟨c, hc, hfmt, _⟩ := h3 c' hc'
      rw [hfmt]; exact h.formats c hc
    · rw [h1] at hb; exact hb
  | selectFrames ixs =>
    simp only [POp.apply, Option.map_eq_some_iff] at hstep
    obtain ⟨b, hb, rfl⟩ := hstep
    exact ⟨ixs.length, P, D, h.formats, ((selectFrames_inv .numpy h.body ixs).1 b hb).1⟩
  | sliceStep k =>
    simp only [POp.apply, Option.map_eq_some_iff] at hstep
    obtain ⟨b, hb, rfl⟩ := hstep
    obtain ⟨r, hr, hinv, _⟩ := sliceStep_inv .numpy sc h.body k hpre
    rw [hr] at hb; cases hb
    exact ⟨_, P, D, h.formats, hinv⟩
  | zeroFilled =>
    simp only [POp.apply, Option.some.injEq] at hstep; subst hstep
    exact ⟨F, P, D, h.formats, (zeroFilled_inv sc h.body).1⟩
  | copy =>
    simp only [POp.apply, Option.some.injEq] at hstep; subst hstep
    exact ⟨F, P, D, h⟩
  | convert be =>
    simp only [POp.apply, Option.some.injEq] at hstep; subst hstep
    refine ⟨F, P, D, h.formats, ?_⟩
    have : mkBody be isZero p.body.fps p.body.data p.body.conf none = mkC isZero p.body.fps p.body.data p.body.conf := by cases be <;> rfl
    simp only [this]
    exact BInv.mkC _ _ h.body.data h.body.conf
  | flip axis =>
    simp only [POp.apply, Option.some.injEq] at hstep; subst hstep
    exact ⟨F, P, D, h.formats, (flip_inv sc h.body axis).1⟩
  | matmul m =>
    simp only [POp.apply, Option.some.injEq] at hstep; subst hstep
    obtain ⟨hF0, hP0, hN0, hD0, hm⟩ := hpre
    rw [hF] at hF0
    rw [hP hF0] at hP0
    have hDD := hD hF0 hP0 hN0
    rw [hDD] at hD0 hm
    have := (matmul_inv sc h.body hD0 m).1
    rw [hm] at this
    exact ⟨F, P, D, h.formats, this⟩
  | transform T =>
    simp only [POp.apply, Option.some.injEq] at hstep; subst hstep
    have hT := hpre _ _ _ _ _ h.body.data
    have hm : p.body.missing = deriveMissing isZero (T p.body.data) p.body.conf := by
      rw [derive_of_rect isZero h.body.data hT h.body.conf]; exact h.body.consistent
    refine ⟨F, P, D, h.formats, ?_⟩
    simp only [mkBody_mkC _ _ _ _ _ _ hm]
    exact BInv.mkC _ _ hT h.body.conf
  | bbox =>
    simp only [POp.apply, Option.some.injEq] at hstep; subst hstep
    obtain ⟨hF0, hP0, hN0, hz, h1⟩ := hpre
    rw [hF] at hF0
    rw [hP hF0] at hP0
    have := (bbox_inv sc hz h1 h.body hF0 hP0 hN0 (p.comps.map (·.points.length))).1
    refine ⟨F, P, D, ?_, ?_⟩
    · intro c' hc'
      simp only [bboxComps, List.mem_map] at hc'
      obtain ⟨c, hc, rfl⟩ := hc'
      exact h.formats c hc
    · simp only [totalPts_bboxComps]
      simpa using this
  | focus =>
    simp only [POp.apply, Option.map_eq_some_iff] at hstep
    obtain ⟨⟨r, dims⟩, hr, rfl⟩ := hstep
    exact ⟨F, P, D, h.formats, (focus_inv sc h.body r dims hr).1⟩
  | interpolate nf n =>
    simp only [POp.apply, Option.map_eq_some_iff] at hstep
    obtain ⟨b, hb, rfl⟩ := hstep
    obtain ⟨hF0, hP0, hN0⟩ := hpre
    rw [hF] at hF0
    rw [hP (by omega)] at hP0
    obtain ⟨r, hr, hinv, _⟩ := interpolate_inv sc h.body hF0 hP0 hN0 nf n
    rw [hr] at hb; cases hb
    exact ⟨n, P, D, h.formats, hinv⟩

/-- the preconditions along a run: each operation's precondition holds in the state it is applied to -/
def PreAll : List (POp S) → PPose S → Prop
  | [], _ => True
  | op :: ops, p => Pre sc isZero op p ∧ ∀ p', op.apply sc isZero p = some p' → PreAll ops p'

/-- **Every sequence** of operations whose individual preconditions hold ends, when it completes, in a well-formed pose — sequences of any length. -/
theorem run_inv (ops : List (POp S)) {p p' : PPose S} (hwf : WF isZero p) (hpre : PreAll sc isZero ops p) (hrun : runPose sc isZero ops p = some p') : WF isZero p' := by
  induction ops generalizing p with
  | nil => simp only [runPose, Option.some.injEq] at hrun; subst hrun; exact hwf
  | cons op ops ih =>
    simp only [runPose, Option.bind_eq_some_iff] at hrun
    obtain ⟨q, hq, hrest⟩ := hrun
    exact ih (step_inv sc isZero op hwf hpre.1 hq) (hpre.2 q hq) hrest

end

/-- what well-formedness says, index by index: the flags of point `(f, p, n)` are `isZero (confidence f p n)`, once per coordinate, and it has `D` coordinates -/
theorem wf_pointwise [Inhabited S] (isZero : S → Bool) {F P D : Nat} {p : PPose S} (h : PInv isZero F P D p) (f q n : Nat) (hf : f < F) (hq : q < P) (hn : n < totalPts p.comps) :
    (((p.body.data.getD f []).getD q []).getD n []).length = D ∧
    ((p.body.missing.getD f []).getD q []).getD n [] = List.replicate D (isZero (((p.body.conf.getD f []).getD q []).getD n default)) := by
  have h3 := RectL.getD (RectL.getD (RectL.getD h.body.data f [] hf) q [] hq) n [] hn
  refine ⟨h3, ?_⟩
  rw [h.body.consistent, C08.missing_all_dims_iff_conf_zero isZero _ _ h.body.sameShape f q n, List.map_const', h3]

end PoseVerif.Props.C12

namespace PoseVerif.Props.C12
open PoseVerif

/-! ### serialisable: a well-formed NumPy pose has the shape its header describes — the hypothesis under which C01's round-trip theorems apply -/

def flat4 {α : Type} (d : A4 α) : List α := d.flatten.flatten.flatten
def flat3 {α : Type} (c : A3 α) : List α := c.flatten.flatten

/-- the pose as the codec model sees it (row-major arrays) -/
def toCodec (version : F32) (width height depth : Nat) (p : PPose F32) (F P D : Nat) : Pose :=
  ⟨⟨version, width, height, depth, p.comps⟩,
   { fps := .f32 p.body.fps, frames := F, people := P, points := totalPts p.comps, dims := D,
     data := flat4 p.body.data, conf := flat3 p.body.conf, missing := (flat3 p.body.conf).map F32.isZero }⟩

theorem flatten_length_of_rect {α : Type} {n m : Nat} {l : List (List α)} (h : RectL n (fun x : List α => x.length = m) l) : l.flatten.length = n * m := by
  induction l generalizing n with
  | nil => have := h.1; simp at this; subst this; simp
  | cons x xs ih =>
    have hx := h.2 x (by simp)
    have := ih (n := xs.length) ⟨rfl, fun w hw => h.2 w (List.mem_cons_of_mem _ hw)⟩
    have hn : n = xs.length + 1 := by have := h.1; simp at this; omega
    simp only [List.flatten_cons, List.length_append, hx, this, hn, Nat.add_mul]
    omega

theorem numDims_of_formats (version : F32) (w h dep : Nat) (comps : List Comp) (D : Nat) (hne : comps ≠ []) (hf : ∀ c ∈ comps, c.format.length = D + 1) :
    (⟨version, w, h, dep, comps⟩ : Header).numDims? = some D := by
  unfold Header.numDims?
  cases comps with
  | nil => exact absurd rfl hne
  | cons c cs =>
    simp only [List.map_cons]
    have hmax : ∀ (l : List Comp) (a : Nat), a = D + 1 → (∀ c ∈ l, c.format.length = D + 1) → (l.map (·.format.length)).foldl max a = D + 1 := by
      intro l; induction l with
      | nil => intro a ha _; simpa using ha
      | cons x xs ih =>
        intro a ha hl
        simp only [List.map_cons, List.foldl_cons]
        exact ih _ (by rw [ha, hl x (by simp)]; simp) fun c hc => hl c (List.mem_cons_of_mem _ hc)
    rw [hmax cs _ (hf c (by simp)) fun c' hc' => hf c' (List.mem_cons_of_mem _ hc')]
    simp

theorem fits_of_inv (version : F32) (w h dep : Nat) {F P D : Nat} {p : PPose F32} (hinv : PInv F32.isZero F P D p) (hne : p.comps ≠ []) (hD : 0 < D) :
    (toCodec version w h dep p F P D).body.Fits (toCodec version w h dep p F P D).header where
  points := rfl
  dims := numDims_of_formats version w h dep p.comps D hne hinv.formats
  dimsPos := hD
  data := by
    show (flat4 p.body.data).length = _
    unfold flat4
    exact flatten_length_of_rect (RectL.flatten (RectL.flatten hinv.body.data))
  conf := by
    show (flat3 p.body.conf).length = _
    unfold flat3
    exact flatten_length_of_rect (RectL.flatten hinv.body.conf)

/-- the missing flags of a well-formed pose are, row-major, exactly "confidence is 0" — what a read of the written file re-derives -/
theorem serialisable (version : F32) (w h dep : Nat) {F P D : Nat} {p : PPose F32} (hinv : PInv F32.isZero F P D p) (hne : p.comps ≠ []) (hD : 0 < D)
    (hrep : (toCodec version w h dep p F P D).Rep) :
    ∃ b x, (toCodec version w h dep p F P D).write? = some b ∧ readFull b = some ((toCodec version w h dep p F P D).canon x) := by
  obtain ⟨b, x, hb, _, hr⟩ := C01.read_write _ (fits_of_inv version w h dep hinv hne hD) hrep
  exact ⟨b, x, hb, hr⟩

/-! ### non-vacuity: a concrete pose is well-formed, and a three-step program on it runs and satisfies its preconditions -/

def demoComp : Comp := { name := "c", format := "XYC", points := ["a", "b"], limbs := [(0, 1)], colors := [(1, 2, 3)] }
def natZero (n : Nat) : Bool := n == 0
def demoPose : PPose Nat := ⟨[demoComp], mkC natZero 25 [[[[1, 2], [3, 4]]], [[[5, 6], [7, 8]]]] [[[1, 0]], [[1, 1]]]⟩

example : PInv natZero 2 1 2 demoPose :=
  ⟨by intro c hc; simp [demoPose] at hc; subst hc; rfl,
   BInv.mkC _ _ (by refine ⟨rfl, ?_⟩; intro fr hfr; simp at hfr; rcases hfr with rfl | rfl <;> exact ⟨rfl, by intro pe hpe; simp at hpe; subst hpe; exact ⟨rfl, by intro pt hpt; simp at hpt; rcases hpt with rfl | rfl <;> rfl⟩⟩)
     (by refine ⟨rfl, ?_⟩; intro fr hfr; simp at hfr; rcases hfr with rfl | rfl <;> exact ⟨rfl, by intro pe hpe; simp at hpe; subst hpe; rfl⟩)⟩

/-! ### the normalisers are instances of `transform` -/

section normalisers
variable {S : Type} (sc : Scalar S) (isZero : S → Bool)
theorem RectL_mapIdx {α : Type} {n : Nat} {P : α → Prop} {l : List α} (h : RectL n P l) (f : Nat → α → α) (hf : ∀ i x, P x → P (f i x)) : RectL n P (l.mapIdx f) := by
  refine ⟨by rw [List.length_mapIdx]; exact h.1, ?_⟩
  intro x hx
  obtain ⟨i, hi, rfl⟩ := List.mem_iff_getElem.mp hx
  simp only [List.getElem_mapIdx]
  exact hf _ _ (h.2 _ (List.getElem_mem _))

/-- a point-wise recomputation that keeps each point's number of coordinates keeps the shape -/
theorem shapePreserving_pointwise (g : List S → List S) (hg : ∀ pt, (g pt).length = pt.length) : ShapePreserving fun d : A4 S => d.map (List.map (List.map g)) := by
  intro d F P N D h
  exact h.map _ fun fr hfr => hfr.map _ fun pe hpe => hpe.map _ fun pt hpt => by rw [hg]; exact hpt

/-- … also when the recomputation depends on the point's index -/
theorem shapePreserving_indexed (g : Nat → List S → List S) (hg : ∀ n pt, (g n pt).length = pt.length) : ShapePreserving fun d : A4 S => d.map (List.map fun pe => pe.mapIdx g) := by
  intro d F P N D h
  exact h.map _ fun fr hfr => hfr.map _ fun pe hpe => RectL_mapIdx hpe g fun n pt hpt => by rw [hg]; exact hpt

/-- **`Pose.normalize` is a shape-preserving recomputation of the coordinates**: whenever it returns, its result is what the `transform` operation returns -/
theorem normalize_is_transform [Inhabited S] (p1 p2 : Nat) (s : S) (p : PPose S) (b' : PBody S) (c : List S) (m : S)
    (h : normalizeBody sc isZero p1 p2 s p.body = some (b', c, m)) :
    ∃ T, ShapePreserving T ∧ (POp.transform T).apply sc isZero p = some ⟨p.comps, b'⟩ := by
  unfold normalizeBody at h
  simp only [Option.bind_eq_bind, Option.bind_eq_some_iff, Option.some.injEq, Prod.mk.injEq] at h
  obtain ⟨center, _, meanDist, _, rfl, _, _⟩ := h
  exact ⟨_, shapePreserving_pointwise (normalizePoint sc center (sc.div s meanDist)) (fun pt => by simp [normalizePoint]), rfl⟩

theorem normalizeDistribution_is_transform [Inhabited S] (allPoints : Bool) (p : PPose S) :
    ∃ T, ShapePreserving T ∧ (POp.transform T).apply sc isZero p = some ⟨p.comps, (normalizeDistribution sc isZero allPoints p.body).1⟩ :=
  ⟨_, shapePreserving_indexed _ (fun n pt => by simp), rfl⟩

theorem unnormalizeDistribution_is_transform [Inhabited S] (mu sd : List (List (Option S))) (p : PPose S) :
    ∃ T, ShapePreserving T ∧ (POp.transform T).apply sc isZero p = some ⟨p.comps, unnormalizeDistribution sc isZero mu sd p.body⟩ :=
  ⟨_, shapePreserving_indexed _ (fun n pt => by simp), rfl⟩

/-- hence the normalisers keep a pose well-formed: same shape, confidences and missing pattern untouched, still serialisable -/
theorem normalize_wf [Inhabited S] (p1 p2 : Nat) (s : S) (p : PPose S) (b' : PBody S) (c : List S) (m : S) (hwf : WF isZero p)
    (h : normalizeBody sc isZero p1 p2 s p.body = some (b', c, m)) : WF isZero ⟨p.comps, b'⟩ := by
  obtain ⟨T, hT, happ⟩ := normalize_is_transform sc isZero p1 p2 s p b' c m h
  exact step_inv sc isZero (.transform T) hwf hT happ

theorem normalizeDistribution_wf [Inhabited S] (allPoints : Bool) (p : PPose S) (hwf : WF isZero p) :
    WF isZero ⟨p.comps, (normalizeDistribution sc isZero allPoints p.body).1⟩ := by
  obtain ⟨T, hT, happ⟩ := normalizeDistribution_is_transform sc isZero allPoints p
  exact step_inv sc isZero (.transform T) hwf hT happ

theorem unnormalizeDistribution_wf [Inhabited S] (mu sd : List (List (Option S))) (p : PPose S) (hwf : WF isZero p) :
    WF isZero ⟨p.comps, unnormalizeDistribution sc isZero mu sd p.body⟩ := by
  obtain ⟨T, hT, happ⟩ := unnormalizeDistribution_is_transform sc isZero mu sd p
  exact step_inv sc isZero (.transform T) hwf hT happ
end normalisers

/-- interpolation of every kind (`quadratic`, `cubic`, or whatever the code substitutes for short tracks — the interpolant is a parameter that returns rows as wide as its
    samples) maps a well-formed pose with at least two frames to a well-formed pose -/
theorem interpolate_any_kind_wf {S : Type} [Inhabited S] (sc : Scalar S) {isZero : S → Bool} (kind : List S → List (List S) → S → List S) (hk : KeepsWidth kind)
    {F P D : Nat} {p : PPose S} (hinv : PInv isZero F P D p) (hF : 2 ≤ F) (hP : 0 < P) (hN : 0 < totalPts p.comps) (newFps : S) (newFrames : Nat) :
    ∃ r, interpolateBodyWith sc isZero kind newFps newFrames p.body = some r ∧ WF isZero ⟨p.comps, r⟩ := by
  obtain ⟨r, hr, hinv', _⟩ := interpolateWith_inv sc kind hk hinv.body hF hP hN newFps newFrames
  exact ⟨r, hr, newFrames, P, D, hinv.formats, hinv'⟩

end PoseVerif.Props.C12
