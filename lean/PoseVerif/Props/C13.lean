import PoseVerif.Proofs.C13Lemmas
/-!
# C13 — normalisation removes exactly the variation it is meant to remove

The executable model (`Model/Normalize`, `Model/Normalize3D`) instantiated with the real numbers and `Real.sqrt`; float rounding is outside these statements.
-/
namespace PoseVerif.Props.C13
open PoseVerif
open Classical in
/-- **zero mean**: after `(x − μ) / σ` the mean of the column is 0 -/
theorem distribution_mean_zero (l : List ℝ) (μ σ : ℝ) (hμ : meanOpt RS l = some μ) (hσ : σ ≠ 0) :
    meanOpt RS (l.map fun x => RS.div (RS.sub x μ) σ) = some 0 := by
  obtain ⟨hl, rfl⟩ := meanOpt_some hμ
  have hn := length_ne_zero hl
  rw [meanOpt_eq _ (by simpa using hl)]
  congr 1
  have : (l.map fun x => RS.div (RS.sub x (l.sum / (l.length : ℝ))) σ) = l.map fun v => (1 / σ) * v + (-(l.sum / (l.length : ℝ)) / σ) := by
    apply List.map_congr_left; intro x _; show (x - _) / σ = _; field_simp; ring
  rw [this, sum_map_affine, List.length_map]
  field_simp
  ring

/-- **unit deviation**: after `(x − μ) / σ` with the column's own mean and (non-zero) deviation, the deviation is 1 -/
theorem distribution_std_one (l : List ℝ) (μ σ : ℝ) (hμ : meanOpt RS l = some μ) (hσ : stdOpt RS l = some σ) (h0 : σ ≠ 0) :
    stdOpt RS (l.map fun x => RS.div (RS.sub x μ) σ) = some 1 := by
  have hm0 := distribution_mean_zero l μ σ hμ h0
  obtain ⟨hl, hμe⟩ := meanOpt_some hμ
  have hn := length_ne_zero hl
  -- σ = sqrt(v), v = mean of squared deviations
  unfold stdOpt at hσ ⊢
  simp only [hμ, Option.bind_eq_bind, Option.bind_some] at hσ
  rw [meanOpt_eq _ (by simpa using hl)] at hσ
  simp only [Option.bind_some, Option.some.injEq] at hσ
  simp only [hm0, Option.bind_eq_bind, Option.bind_some]
  rw [meanOpt_eq _ (by simpa using hl)]
  simp only [Option.bind_some, Option.some.injEq, List.map_map, List.length_map]
  set v := (l.map fun x => RS.mul (RS.sub x μ) (RS.sub x μ)).sum / (l.length : ℝ) with hv
  have hv0 : 0 ≤ v := by
    apply div_nonneg
    · apply List.sum_nonneg
      intro y hy
      obtain ⟨x, _, rfl⟩ := List.mem_map.mp hy
      exact mul_self_nonneg _
    · positivity
  have hσv : σ * σ = v := by
    rw [← hσ, List.length_map]; exact Real.mul_self_sqrt hv0
  have key : ((l.map ((fun x => RS.mul (RS.sub x 0) (RS.sub x 0)) ∘ fun x => RS.div (RS.sub x μ) σ)).sum / (l.length : ℝ)) = 1 := by
    have e : (l.map ((fun x => RS.mul (RS.sub x 0) (RS.sub x 0)) ∘ fun x => RS.div (RS.sub x μ) σ)) =
        (l.map fun x => RS.mul (RS.sub x μ) (RS.sub x μ)).map fun y => (1 / (σ * σ)) * y + 0 := by
      rw [List.map_map]
      apply List.map_congr_left; intro x _
      show ((x - μ) / σ - 0) * ((x - μ) / σ - 0) = 1 / (σ * σ) * ((x - μ) * (x - μ)) + 0
      field_simp
      ring
    rw [e, sum_map_affine]
    have hvv : (l.map fun x => RS.mul (RS.sub x μ) (RS.sub x μ)).sum = v * (l.length : ℝ) := by rw [hv]; field_simp
    rw [hvv, ← hσv]
    field_simp
    simp
  show Real.sqrt _ = 1
  rw [key, Real.sqrt_one]

/-- **unnormalize restores**: `((x − μ) / σ) · σ + μ = x` for `σ ≠ 0` -/
theorem unnormalize_inverse (x μ σ : ℝ) (h0 : σ ≠ 0) : RS.add (RS.mul (RS.div (RS.sub x μ) σ) σ) μ = x := by
  show (x - μ) / σ * σ + μ = x
  field_simp
  ring

variable {isZero : ℝ → Bool} {F P N D : Nat} {b : PBody ℝ}
/-- **Distribution normaliser, on the body** (axes (0, 1)): for every point `n` and coordinate `d` whose column has a mean `μ` and a non-zero deviation `σ`, the
    column of the result has mean 0 and deviation 1; confidences and missing pattern are unchanged. -/
theorem normalizeDistribution_post {isZero : ℝ → Bool} {F P N D : Nat} {b : PBody ℝ} (h : BInv isZero F P N D b) (hF : 0 < F) (hP : 0 < P) (hN : 0 < N)
    (n d : Nat) (hn : n < N) (hd : d < D) (μ σ : ℝ) (hμ : meanOpt RS (columnVals b false n d) = some μ) (hσ : stdOpt RS (columnVals b false n d) = some σ) (h0 : σ ≠ 0) :
    meanOpt RS (columnVals (normalizeDistribution RS isZero false b).1 false n d) = some 0 ∧
    stdOpt RS (columnVals (normalizeDistribution RS isZero false b).1 false n d) = some 1 ∧
    (normalizeDistribution RS isZero false b).1.conf = b.conf ∧ (normalizeDistribution RS isZero false b).1.missing = b.missing := by
  have hD : numDimsBody b = D := numDims_of_rect h.data hF hP hN
  have hNp : numPoints b = N := numPoints_of_rect h.conf hF hP
  -- the result is a coordinate-wise, index-aware image of the input
  let g : Nat → Nat → ℝ → ℝ := fun n d x =>
    distMap RS ((((List.range N).map fun n => (List.range D).map fun d => meanOpt RS (columnVals b false n d)).getD n []).getD d none)
      ((((List.range N).map fun n => (List.range D).map fun d => stdOpt RS (columnVals b false n d)).getD n []).getD d none) x
  have hres : (normalizeDistribution RS isZero false b).1 = mapCoordsN isZero g b.fps b := by
    unfold normalizeDistribution mapCoordsN
    simp only [hD, hNp]
    rfl
  have hg : g n d = fun x => RS.div (RS.sub x μ) σ := by
    funext x
    simp only [g, getD_range_map' N n _ [] hn, getD_range_map' D d _ none hd, hμ, hσ, distMap]
  rw [hres]
  have hcol : columnVals (mapCoordsN isZero g b.fps b) false n d = (columnVals b false n d).map fun x => RS.div (RS.sub x μ) σ := by
    unfold columnVals
    simp only [Bool.false_eq_true, if_false]
    rw [cellVals_mapCoordsN h, filterMap_id_map, hg]
  rw [hcol]
  refine ⟨distribution_mean_zero _ μ σ hμ h0, distribution_std_one _ μ σ hμ hσ h0, ?_, ?_⟩
  · rw [mapCoordsN_eq h]
  · rw [mapCoordsN_eq h]

/-- **Distribution normaliser, on the body, axes (0, 1, 2)** (one mean and deviation per coordinate, over all frames, people AND points): for every coordinate `d`
    whose all-points column has a mean `μ` and a non-zero deviation `σ`, the column of the result has mean 0 and deviation 1; confidences and missing pattern unchanged. -/
theorem normalizeDistribution_post_all {isZero : ℝ → Bool} {F P N D : Nat} {b : PBody ℝ} (h : BInv isZero F P N D b) (hF : 0 < F) (hP : 0 < P) (hN : 0 < N)
    (d : Nat) (hd : d < D) (μ σ : ℝ) (hμ : meanOpt RS (columnVals b true 0 d) = some μ) (hσ : stdOpt RS (columnVals b true 0 d) = some σ) (h0 : σ ≠ 0) :
    meanOpt RS (columnVals (normalizeDistribution RS isZero true b).1 true 0 d) = some 0 ∧
    stdOpt RS (columnVals (normalizeDistribution RS isZero true b).1 true 0 d) = some 1 ∧
    (normalizeDistribution RS isZero true b).1.conf = b.conf ∧ (normalizeDistribution RS isZero true b).1.missing = b.missing := by
  have hD : numDimsBody b = D := numDims_of_rect h.data hF hP hN
  have hNp : numPoints b = N := numPoints_of_rect h.conf hF hP
  -- for axes (0, 1, 2) the column does not depend on the point index
  have hcolN : ∀ n, columnVals b true n d = columnVals b true 0 d := fun n => by unfold columnVals; rfl
  let g : Nat → Nat → ℝ → ℝ := fun n d x =>
    distMap RS ((((List.range N).map fun n => (List.range D).map fun d => meanOpt RS (columnVals b true n d)).getD n []).getD d none)
      ((((List.range N).map fun n => (List.range D).map fun d => stdOpt RS (columnVals b true n d)).getD n []).getD d none) x
  have hres : (normalizeDistribution RS isZero true b).1 = mapCoordsN isZero g b.fps b := by
    unfold normalizeDistribution mapCoordsN
    simp only [hD, hNp]
    rfl
  have hg : ∀ n, n < N → g n d = fun x => RS.div (RS.sub x μ) σ := by
    intro n hn
    funext x
    simp only [g, getD_range_map' N n _ [] hn, getD_range_map' D d _ none hd, hcolN n, hμ, hσ, distMap]
  rw [hres, columnVals_all_mapCoordsN h g b.fps d _ hg 0]
  refine ⟨distribution_mean_zero _ μ σ hμ h0, distribution_std_one _ μ σ hμ hσ h0, ?_, ?_⟩
  · rw [mapCoordsN_eq h]
  · rw [mapCoordsN_eq h]

/-- **Postcondition of `normalize`**: confidences and missing pattern unchanged, mean midpoint of the reference points at the origin, mean reference distance
    equal to the requested scale. -/
theorem normalize_post (h : BInv isZero F P N D b) (p1 p2 : Nat) (sf : ℝ) (hsf : 0 < sf) (b' : PBody ℝ) (center : List ℝ) (md : ℝ)
    (hres : normalizeBody RS isZero p1 p2 sf b = some (b', center, md)) (hmd : md ≠ 0) :
    b'.conf = b.conf ∧ b'.missing = b.missing ∧
    (∀ d < numDimsBody b, meanOpt RS (midVals RS b' p1 p2 d) = some 0) ∧
    meanOpt RS (distVals RS b' p1 p2 (numDimsBody b)) = some sf := by
  obtain ⟨rfl, hc, hm⟩ := normalizeBody_eq p1 p2 sf b b' center md hres
  have hmd0 : 0 < md := by
    obtain ⟨hl, rfl⟩ := meanOpt_some hm
    have : 0 ≤ (distVals RS b p1 p2 (numDimsBody b)).sum / ((distVals RS b p1 p2 (numDimsBody b)).length : ℝ) :=
      div_nonneg (List.sum_nonneg (distVals_nonneg b p1 p2 _)) (by positivity)
    exact lt_of_le_of_ne this (Ne.symm hmd)
  have hs : 0 < sf / md := div_pos hsf hmd0
  refine ⟨by rw [mapCoords_eq h], by rw [mapCoords_eq h], ?_, ?_⟩
  · intro d hd
    obtain ⟨hlen, hget⟩ := mapM_some_getD _ _ _ hc
    have hcd := hget d (by simpa using hd)
    simp only [List.getElem_range] at hcd
    rw [midVals_affine h, mean_affine _ _ _ _ hcd]
    congr 1
    ring
  · rw [distVals_affine h]
    have := mean_affine |sf / md| 0 _ _ hm
    simp only [add_zero] at this
    rw [this, abs_of_pos hs]
    congr 1
    field_simp

/-- **Similarity invariance of `normalize`**: translating the input by `t` and scaling it uniformly by `a > 0` gives exactly the same normalised body. -/
theorem normalize_similarity_invariant (h : BInv isZero F P N D b) (hF : 0 < F) (hP : 0 < P) (hN : 0 < N) (p1 p2 : Nat) (sf : ℝ) (a : ℝ) (ha : 0 < a) (t : Nat → ℝ)
    (b' : PBody ℝ) (center : List ℝ) (md : ℝ) (hres : normalizeBody RS isZero p1 p2 sf b = some (b', center, md)) (hmd : md ≠ 0) :
    ∃ center₂ md₂, normalizeBody RS isZero p1 p2 sf (mapCoords isZero (fun d x => a * x + t d) b.fps b) = some (b', center₂, md₂) := by
  obtain ⟨rfl, hc, hm⟩ := normalizeBody_eq p1 p2 sf b b' center md hres
  have h2 := mapCoords_inv h (fun d x => a * x + t d) b.fps
  have hD : numDimsBody b = D := numDims_of_rect h.data hF hP hN
  have hD2 : numDimsBody (mapCoords isZero (fun d x => a * x + t d) b.fps b) = D := numDims_of_rect h2.data hF hP hN
  obtain ⟨hlen, hget⟩ := mapM_some_getD _ _ _ hc
  simp only [List.length_range] at hlen
  refine ⟨(List.range D).map fun d => a * center.getD d 0 + t d, a * md, ?_⟩
  unfold normalizeBody
  rw [hD2]
  have hc2 : (List.range D).mapM (fun d => meanOpt RS (midVals RS (mapCoords isZero (fun d x => a * x + t d) b.fps b) p1 p2 d)) =
      some ((List.range D).map fun d => a * center.getD d 0 + t d) := by
    apply mapM_range_some
    intro d hd
    have hcd := hget d (by simpa [hD] using hd)
    simp only [List.getElem_range] at hcd
    rw [midVals_affine h, mean_affine _ _ _ _ hcd]
  have hm2 : meanOpt RS (distVals RS (mapCoords isZero (fun d x => a * x + t d) b.fps b) p1 p2 D) = some (a * md) := by
    rw [distVals_affine h]
    have := mean_affine |a| 0 _ _ (hD ▸ hm)
    simp only [add_zero] at this
    rw [this, abs_of_pos ha]
  simp only [hc2, hm2, Option.bind_eq_bind, Option.bind_some, Option.some.injEq, Prod.mk.injEq, and_true]
  rw [mapCoords_eq h (fun d x => a * x + t d)]
  show mkBody Backend.numpy isZero b.fps
      ((b.data.map (List.map (List.map fun pt => List.mapIdx (fun d x => a * x + t d) pt))).map
        (List.map (List.map (normalizePoint RS (List.map (fun d => a * center.getD d 0 + t d) (List.range D)) (RS.div sf (a * md))))))
      b.conf (some b.missing) =
    mkBody Backend.numpy isZero b.fps (b.data.map (List.map (List.map fun pt => List.mapIdx (fun d x => sf / md * x + -center.getD d 0 * (sf / md)) pt))) b.conf (some b.missing)
  -- both sides are the constructor applied to point-wise images of the same data
  have hdata : ((b.data.map (List.map (List.map fun pt => List.mapIdx (fun d x => a * x + t d) pt))).map
        (List.map (List.map (normalizePoint RS (List.map (fun d => a * center.getD d 0 + t d) (List.range D)) (RS.div sf (a * md)))))) =
      b.data.map (List.map (List.map fun pt => List.mapIdx (fun d x => sf / md * x + -center.getD d 0 * (sf / md)) pt)) := by
    rw [List.map_map]
    apply List.map_congr_left
    intro fr hfr
    simp only [Function.comp, List.map_map]
    apply List.map_congr_left
    intro pe hpe
    simp only [Function.comp, List.map_map]
    apply List.map_congr_left
    intro pt hpt
    have hpl : pt.length = D := ((h.data.2 fr hfr).2 pe hpe).2 pt hpt
    simp only [Function.comp, normalizePoint, List.mapIdx_mapIdx]
    apply mapIdx_congr_lt
    intro i hi
    have hi' : i < D := by rw [← hpl]; exact hi
    have hg : ((List.range D).map fun d => a * center.getD d 0 + t d).getD i RS.zero = a * center.getD i 0 + t i := by
      simp [List.getD_eq_getElem?_getD, hi']
    simp only [hg, RS_mul, RS_sub, RS_div, Function.comp]
    have ha' : a ≠ 0 := ne_of_gt ha
    field_simp
    ring
  rw [hdata]

/-- **Normalising is not a one-shot operation**: normalising a pose that was normalised before (any earlier scale `s₁ > 0`) gives exactly what normalising the
    original gives — the first normalisation is a similarity transform, which the second removes. -/
theorem normalize_twice {isZero : ℝ → Bool} {F P N D : Nat} {b : PBody ℝ} (h : BInv isZero F P N D b) (hF : 0 < F) (hP : 0 < P) (hN : 0 < N) (p1 p2 : Nat) (s₁ s₂ : ℝ) (hs₁ : 0 < s₁)
    (b₁ b₂ : PBody ℝ) (c₁ c₂ : List ℝ) (md₁ md₂ : ℝ)
    (h1 : normalizeBody RS isZero p1 p2 s₁ b = some (b₁, c₁, md₁)) (h2 : normalizeBody RS isZero p1 p2 s₂ b = some (b₂, c₂, md₂)) (hmd : md₁ ≠ 0) :
    ∃ c md, normalizeBody RS isZero p1 p2 s₂ b₁ = some (b₂, c, md) := by
  obtain ⟨hb1, _, hm1⟩ := normalizeBody_eq p1 p2 s₁ b b₁ c₁ md₁ h1
  obtain ⟨_, _, hm2⟩ := normalizeBody_eq p1 p2 s₂ b b₂ c₂ md₂ h2
  have hmd2 : md₂ ≠ 0 := by
    rw [hm1] at hm2; cases hm2; exact hmd
  have hmd0 : 0 < md₁ := by
    obtain ⟨hl, rfl⟩ := meanOpt_some hm1
    have : 0 ≤ (distVals RS b p1 p2 (numDimsBody b)).sum / ((distVals RS b p1 p2 (numDimsBody b)).length : ℝ) :=
      div_nonneg (List.sum_nonneg (distVals_nonneg b p1 p2 _)) (by positivity)
    exact lt_of_le_of_ne this (Ne.symm hmd)
  rw [hb1]
  exact normalize_similarity_invariant h hF hP hN p1 p2 s₂ (s₁ / md₁) (div_pos hs₁ hmd0) (fun d => -(c₁.getD d 0) * (s₁ / md₁)) b₂ c₂ md₂ h2 hmd2
/-- **the first line point goes to the origin** -/
theorem line_p1_at_origin (info : Norm3DInfo) (size : ℝ) (pts : List (V3S ℝ)) (h : info.line.1 < pts.length) :
    (normalize3DPerson RS info size pts).getD info.line.1 default = (0, 0, 0) := by
  unfold normalize3DPerson stage3
  simp only []
  rw [getD_map_lt _ _ _ (by simpa using h)]
  simp [v3sub]

/-- the in-plane rotation and the scaling keep z = 0; the final translation does when the first line point is itself a plane point -/
theorem plane_at_z0_partial (info : Norm3DInfo) (size : ℝ) (pts : List (V3S ℝ)) (hr : InRange info pts.length)
    (hin : info.line.1 = info.plane.1 ∨ info.line.1 = info.plane.2.1 ∨ info.line.1 = info.plane.2.2) (k : Nat)
    (hk : k = info.plane.1 ∨ k = info.plane.2.1 ∨ k = info.plane.2.2) : ((normalize3DPerson RS info size pts).getD k default).2.2 = 0 := by
  have hkl : k < pts.length := by rcases hk with rfl | rfl | rfl; exact hr.1; exact hr.2.1; exact hr.2.2.1
  have hz : ∀ j, (j = info.plane.1 ∨ j = info.plane.2.1 ∨ j = info.plane.2.2) → j < pts.length → ((stage2 RS info (stage1 RS info pts)).getD j default).2.2 = 0 := by
    intro j hj hjl
    unfold stage2
    simp only []
    rw [getD_map_lt _ _ _ (by simpa using hjl)]
    exact stage1_plane_z info pts hr j hj
  unfold normalize3DPerson stage3
  simp only []
  rw [getD_map_lt _ _ _ (by simpa using hkl), getD_map_lt _ _ _ (by simpa using hkl), getD_map_lt _ _ _ (by simpa using hr.2.2.2.1)]
  simp only [v3sub, v3scale, RS_sub, RS_mul]
  rw [hz k hk hkl, hz info.line.1 hin hr.2.2.2.1]
  ring

/-- **the line lands on the negative Y half-plane with the requested 3-D length**: for a line whose projection on the plane is not a point (`r ≠ 0`) and `size > 0`,
    the second line point is `(0, y, z)` with `y < 0`, and its distance from the origin (where the first line point is) is `size`. -/
theorem line_on_negative_y (info : Norm3DInfo) (size : ℝ) (hsize : 0 < size) (pts : List (V3S ℝ)) (hr : InRange info pts.length)
    (hproj : let v := v3sub RS ((stage1 RS info pts).getD info.line.2 default) ((stage1 RS info pts).getD info.line.1 default); v.1 * v.1 + v.2.1 * v.2.1 ≠ 0) :
    let q := (normalize3DPerson RS info size pts).getD info.line.2 default
    q.1 = 0 ∧ q.2.1 < 0 ∧ v3norm RS q = size := by
  intro q
  have h1 : info.line.1 < (stage1 RS info pts).length := by simpa using hr.2.2.2.1
  have h2 : info.line.2 < (stage1 RS info pts).length := by simpa using hr.2.2.2.2
  generalize hl : stage1 RS info pts = l at *
  -- the rotated line vector
  rcases hA : l.getD info.line.1 default with ⟨ax, ay, az⟩
  rcases hB : l.getD info.line.2 default with ⟨bx, by', bz⟩
  simp only [hA, hB, v3sub, RS_sub] at hproj
  set vx := bx - ax with hvx
  set vy := by' - ay with hvy
  set vz := bz - az with hvz
  have hr2pos : 0 < vx * vx + vy * vy := lt_of_le_of_ne (add_nonneg (mul_self_nonneg _) (mul_self_nonneg _)) (Ne.symm hproj)
  set r := Real.sqrt (vx * vx + vy * vy) with hrdef
  have hrpos : 0 < r := Real.sqrt_pos.mpr hr2pos
  have hrr : r * r = vx * vx + vy * vy := Real.mul_self_sqrt (le_of_lt hr2pos)
  have hm1 : (stage2 RS info l).getD info.line.1 default = ((-vy / r) * ax + (vx / r) * ay, -(vx / r) * ax + (-vy / r) * ay, az) := by
    unfold stage2; simp only []
    rw [getD_map_lt _ _ _ h1, hA, hB]
    simp only [v3sub, RS_sub, RS_add, RS_mul, RS_div, RS_neg, RS_sqrt]
    rfl
  have hm2 : (stage2 RS info l).getD info.line.2 default = ((-vy / r) * bx + (vx / r) * by', -(vx / r) * bx + (-vy / r) * by', bz) := by
    unfold stage2; simp only []
    rw [getD_map_lt _ _ _ h2, hA, hB]
    simp only [v3sub, RS_sub, RS_add, RS_mul, RS_div, RS_neg, RS_sqrt]
    rfl
  have hdx : ((-vy / r) * bx + (vx / r) * by') - ((-vy / r) * ax + (vx / r) * ay) = 0 := by
    have : ((-vy / r) * bx + (vx / r) * by') - ((-vy / r) * ax + (vx / r) * ay) = (-vy * vx + vx * vy) / r := by rw [hvx, hvy]; field_simp; ring
    rw [this]; ring_nf
  have hdy : (-(vx / r) * bx + (-vy / r) * by') - (-(vx / r) * ax + (-vy / r) * ay) = -r := by
    have : (-(vx / r) * bx + (-vy / r) * by') - (-(vx / r) * ax + (-vy / r) * ay) = -(vx * vx + vy * vy) / r := by rw [hvx, hvy]; field_simp; ring
    rw [this, ← hrr]; field_simp
  -- scaling and translation
  set cur := Real.sqrt ((0 : ℝ) * 0 + (-r) * (-r) + vz * vz) with hcur
  have hcurpos : 0 < cur := Real.sqrt_pos.mpr (by nlinarith [mul_pos hrpos hrpos, mul_self_nonneg vz])
  have hcc : cur * cur = r * r + vz * vz := by rw [hcur, Real.mul_self_sqrt (by nlinarith [mul_self_nonneg r, mul_self_nonneg vz])]; ring
  have hq : q = (0, (size / cur) * (-r), (size / cur) * vz) := by
    show (normalize3DPerson RS info size pts).getD info.line.2 default = _
    unfold normalize3DPerson stage3
    simp only [hl]
    rw [getD_map_lt _ _ _ (by simpa using h2), getD_map_lt _ _ _ (by simpa using h2), getD_map_lt _ _ _ (by simpa using h1), hm1, hm2]
    simp only [v3sub, v3scale, v3norm, v3dot, RS_sub, RS_mul, RS_div, RS_add, RS_sqrt, hdx, hdy, ← hvz, ← hcur]
    refine Prod.ext ?_ (Prod.ext ?_ ?_) <;> simp only []
    · have e : (-vy / r * bx + vx / r * by') * (size / cur) - (-vy / r * ax + vx / r * ay) * (size / cur) =
          ((-vy / r * bx + vx / r * by') - (-vy / r * ax + vx / r * ay)) * (size / cur) := by ring
      rw [e, hdx]; ring
    · have := hdy
      have e : (-(vx / r) * bx + -vy / r * by') * (size / cur) - (-(vx / r) * ax + -vy / r * ay) * (size / cur) =
          ((-(vx / r) * bx + -vy / r * by') - (-(vx / r) * ax + -vy / r * ay)) * (size / cur) := by ring
      rw [e, this]; ring
    · ring
  have hs : 0 < size / cur := div_pos hsize hcurpos
  refine ⟨by rw [hq], by rw [hq]; exact mul_neg_of_pos_of_neg hs (by linarith), ?_⟩
  rw [hq]
  simp only [v3norm, v3dot, RS_add, RS_mul, RS_sqrt]
  have : (0 : ℝ) * 0 + size / cur * -r * (size / cur * -r) + size / cur * vz * (size / cur * vz) = size * size := by
    have hc0 : cur ≠ 0 := ne_of_gt hcurpos
    field_simp
    nlinarith [hcc]
  rw [this, Real.sqrt_mul_self (le_of_lt hsize)]

/-- **translation invariance**: the change of basis only looks at differences from the first plane point -/
theorem normalize3D_translation_invariant (info : Norm3DInfo) (size : ℝ) (pts : List (V3S ℝ)) (hr : InRange info pts.length) (t : V3S ℝ) :
    normalize3DPerson RS info size (pts.map (trans3 t)) = normalize3DPerson RS info size pts := by
  unfold normalize3DPerson
  congr 2
  unfold stage1
  simp only [getD_map_lt (trans3 t) pts _ hr.1, getD_map_lt (trans3 t) pts _ hr.2.1, getD_map_lt (trans3 t) pts _ hr.2.2.1, List.map_map, v3sub_trans]
  apply List.map_congr_left
  intro p _
  simp only [Function.comp, v3sub_trans]

/-- **scale invariance**: multiplying every coordinate by `a > 0` does not change the output -/
theorem normalize3D_scale_invariant (info : Norm3DInfo) (size : ℝ) (pts : List (V3S ℝ)) (hr : InRange info pts.length) (a : ℝ) (ha : 0 < a) :
    normalize3DPerson RS info size (pts.map (scale3 a)) = normalize3DPerson RS info size pts := by
  unfold normalize3DPerson
  rw [stage1_scale info pts hr a ha, stage2_scale info _ (by simpa using hr.2.2.2.1) (by simpa using hr.2.2.2.2) a ha,
    stage3_scale info size _ (by simpa using hr.2.2.2.1) (by simpa using hr.2.2.2.2) a ha]

/-- **Not rotation-invariant**: a non-degenerate pose (plane (0,0,0), (3,0,4), (0,1,0); line = its first edge) whose normalisation changes when the input is rotated
    by 90° about Z — the fourth point's z is −1/15 before and −1/25 after. The change of basis uses `y = x₀ × z`, `x = z × y`, unit vectors only when the normal is
    orthogonal to the X axis. -/
theorem not_rotation_invariant : ∃ (info : Norm3DInfo) (size : ℝ) (pts : List (V3S ℝ)) (R : V3S ℝ → V3S ℝ),
    InRange info pts.length ∧ (∀ p q, v3dot RS (R p) (R q) = v3dot RS p q) ∧
    normalize3DPerson RS info size (pts.map R) ≠ normalize3DPerson RS info size pts := by
  refine ⟨k2info, 1, k2pts, rotZ90, by simp [InRange, k2info, k2pts], ?_, ?_⟩
  · intro p q; simp only [v3dot, rotZ90, RS_add, RS_mul]; ring
  · intro h
    have h1 := k2_original
    have h2 := k2_rotated
    rw [h, h1] at h2
    norm_num at h2

example : InRange k2info k2pts.length := by simp [InRange, k2info, k2pts]

section independence
variable {S : Type}
/-- **every frame and person is normalised on its own**: entry `(f, q)` of the result is the 3-D normalisation of entry `(f, q)` of the input — of nothing else —,
    zero-filled by that entry's own missing flags; the missing pattern is returned unchanged -/
theorem normalize3DBody_independent [Inhabited S] (sc : Scalar S) (isZero : S → Bool) (info : Norm3DInfo) (size : S) (b : PBody S) (out : A4 S) (m : A4 Bool)
    (h : normalize3DBody sc isZero info size b = some (out, m)) (hs : b.data.length = b.missing.length)
    (hs2 : ∀ f, (b.data.getD f []).length = (b.missing.getD f []).length) (f q : Nat) (hq : q < (b.data.getD f []).length) :
    m = b.missing ∧
    (out.getD f []).getD q [] =
      List.zipWith (List.zipWith fun x (mm : Bool) => if mm then sc.zero else x)
        ((normalize3DPerson sc info size (((b.data.getD f []).getD q []).map toV3)).map ofV3) ((b.missing.getD f []).getD q []) := by
  unfold normalize3DBody at h
  split at h
  · cases h
  · simp only [Option.some.injEq, Prod.mk.injEq] at h
    obtain ⟨rfl, rfl⟩ := h
    refine ⟨rfl, ?_⟩
    unfold zeroFill4
    have h1 := getD_zipWith' (List.zipWith (List.zipWith (List.zipWith fun x (mm : Bool) => if mm then sc.zero else x)))
      (b.data.map (List.map fun pe => (normalize3DPerson sc info size (pe.map toV3)).map ofV3)) b.missing (by simpa using hs) f [] []
    simp only [List.zipWith_nil_left] at h1
    rw [h1]
    have hf : ((b.data.map (List.map fun pe => (normalize3DPerson sc info size (pe.map toV3)).map ofV3)).getD f []) =
        (b.data.getD f []).map fun pe => (normalize3DPerson sc info size (pe.map toV3)).map ofV3 := by
      simp only [List.getD_eq_getElem?_getD, List.getElem?_map]
      cases b.data[f]? <;> simp
    rw [hf]
    have h2 := getD_zipWith' (List.zipWith (List.zipWith fun x (mm : Bool) => if mm then sc.zero else x))
      ((b.data.getD f []).map fun pe => (normalize3DPerson sc info size (pe.map toV3)).map ofV3) (b.missing.getD f []) (by simpa using hs2 f) q [] []
    simp only [List.zipWith_nil_left] at h2
    rw [h2]
    congr 1
    simp only [List.getD_eq_getElem?_getD] at hq ⊢
    simp only [List.getElem?_map, List.getElem?_eq_getElem hq, Option.map_some, Option.getD_some]
end independence

end PoseVerif.Props.C13
