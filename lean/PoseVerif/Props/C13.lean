import PoseVerif.Model.Normalize3D
import PoseVerif.Proofs.NormLift
import Mathlib.Analysis.Real.Sqrt
import Mathlib.Tactic.Ring
import Mathlib.Tactic.FieldSimp
import Mathlib.Tactic.Linarith
/-!
# C13 — normalisation removes exactly the variation it is meant to remove

The executable model (`Model/Normalize`, `Model/Normalize3D`) instantiated with the real numbers and `Real.sqrt`; float rounding is outside these statements.
-/
namespace PoseVerif.Props.C13
open PoseVerif

noncomputable instance : Inhabited ℝ := ⟨0⟩

open Classical in
/-- the scalar record of ℝ -/
noncomputable def realScalar : Scalar ℝ :=
  { zero := 0, add := (· + ·), sub := (· - ·), mul := (· * ·), div := (· / ·), pow := fun x _ => x, sqrt := Real.sqrt, ofNat := fun n => (n : ℝ),
    isFinite := fun _ => true, isNaN := fun _ => false, lt := fun a b => decide (a < b), neg := fun a => -a, ceilNat := fun _ => 0 }

noncomputable abbrev RS := realScalar

@[simp] theorem RS_add (a b : ℝ) : RS.add a b = a + b := rfl
@[simp] theorem RS_sub (a b : ℝ) : RS.sub a b = a - b := rfl
@[simp] theorem RS_mul (a b : ℝ) : RS.mul a b = a * b := rfl
@[simp] theorem RS_div (a b : ℝ) : RS.div a b = a / b := rfl
@[simp] theorem RS_sqrt (a : ℝ) : RS.sqrt a = Real.sqrt a := rfl
@[simp] theorem RS_zero : RS.zero = 0 := rfl
@[simp] theorem RS_neg (a : ℝ) : RS.neg a = -a := rfl
@[simp] theorem RS_ofNat (n : Nat) : RS.ofNat n = (n : ℝ) := rfl

theorem sumList_eq (l : List ℝ) : sumList RS l = l.sum := by
  unfold sumList
  have gen : ∀ (l : List ℝ) (a : ℝ), l.foldl RS.add a = a + l.sum := by
    intro l; induction l with
    | nil => intro a; simp
    | cons x xs ih => intro a; simp only [List.foldl_cons, List.sum_cons, ih, RS_add]; ring
  simpa using gen l 0

theorem meanOpt_eq (l : List ℝ) (h : l ≠ []) : meanOpt RS l = some (l.sum / (l.length : ℝ)) := by
  unfold meanOpt
  have : l.isEmpty = false := by cases l <;> simp_all
  simp only [this, sumList_eq]
  rfl

theorem meanOpt_some {l : List ℝ} {m : ℝ} (h : meanOpt RS l = some m) : l ≠ [] ∧ m = l.sum / (l.length : ℝ) := by
  by_cases hl : l = []
  · subst hl; simp [meanOpt] at h
  · rw [meanOpt_eq l hl] at h; exact ⟨hl, by cases h; rfl⟩

theorem length_ne_zero {l : List ℝ} (h : l ≠ []) : (l.length : ℝ) ≠ 0 := by
  cases l with
  | nil => exact absurd rfl h
  | cons x xs => simp only [List.length_cons]; exact_mod_cast Nat.succ_ne_zero xs.length

theorem sum_map_affine (a t : ℝ) (l : List ℝ) : (l.map fun v => a * v + t).sum = a * l.sum + t * (l.length : ℝ) := by
  induction l with
  | nil => simp
  | cons x xs ih => simp only [List.map_cons, List.sum_cons, ih, List.length_cons]; push_cast; ring

/-! ### distribution normalisation, one column (the values of one coordinate over the chosen axes) -/

/-- **zero mean**: after `(x − μ) / σ` the mean of the column is 0 -/
theorem distribution_mean_zero (l : List ℝ) (μ σ : ℝ) (hμ : meanOpt RS l = some μ) (hσ : σ ≠ 0) :
    meanOpt RS (l.map fun x => RS.div (RS.sub x μ) σ) = some 0 := by
  obtain ⟨hl, rfl⟩ := meanOpt_some hμ
  have hn := length_ne_zero hl
  rw [meanOpt_eq _ (by simpa using hl)]
  congr 1
  have : (l.map fun x => RS.div (RS.sub x (l.sum / (l.length : ℝ))) σ) = l.map fun v => (1 / σ) * v + (-(l.sum / (l.length : ℝ)) / σ) := by
    apply List.map_congr_left; intro x _; show (x - _) / σ = _; field_simp; ring
  rw [this, sum_map_affine, List.length_map]
  field_simp
  ring

/-- **unit deviation**: after `(x − μ) / σ` with the column's own mean and (non-zero) deviation, the deviation is 1 -/
theorem distribution_std_one (l : List ℝ) (μ σ : ℝ) (hμ : meanOpt RS l = some μ) (hσ : stdOpt RS l = some σ) (h0 : σ ≠ 0) :
    stdOpt RS (l.map fun x => RS.div (RS.sub x μ) σ) = some 1 := by
  have hm0 := distribution_mean_zero l μ σ hμ h0
  obtain ⟨hl, hμe⟩ := meanOpt_some hμ
  have hn := length_ne_zero hl
  -- σ = sqrt(v), v = mean of squared deviations
  unfold stdOpt at hσ ⊢
  simp only [hμ, Option.bind_eq_bind, Option.bind_some] at hσ
  rw [meanOpt_eq _ (by simpa using hl)] at hσ
  simp only [Option.bind_some, Option.some.injEq] at hσ
  simp only [hm0, Option.bind_eq_bind, Option.bind_some]
  rw [meanOpt_eq _ (by simpa using hl)]
  simp only [Option.bind_some, Option.some.injEq, List.map_map, List.length_map]
  set v := (l.map fun x => RS.mul (RS.sub x μ) (RS.sub x μ)).sum / (l.length : ℝ) with hv
  have hv0 : 0 ≤ v := by
    apply div_nonneg
    · apply List.sum_nonneg
      intro y hy
      obtain ⟨x, _, rfl⟩ := List.mem_map.mp hy
      exact mul_self_nonneg _
    · positivity
  have hσv : σ * σ = v := by
    rw [← hσ, List.length_map]; exact Real.mul_self_sqrt hv0
  have key : ((l.map ((fun x => RS.mul (RS.sub x 0) (RS.sub x 0)) ∘ fun x => RS.div (RS.sub x μ) σ)).sum / (l.length : ℝ)) = 1 := by
    have e : (l.map ((fun x => RS.mul (RS.sub x 0) (RS.sub x 0)) ∘ fun x => RS.div (RS.sub x μ) σ)) =
        (l.map fun x => RS.mul (RS.sub x μ) (RS.sub x μ)).map fun y => (1 / (σ * σ)) * y + 0 := by
      rw [List.map_map]
      apply List.map_congr_left; intro x _
      show ((x - μ) / σ - 0) * ((x - μ) / σ - 0) = 1 / (σ * σ) * ((x - μ) * (x - μ)) + 0
      field_simp
      ring
    rw [e, sum_map_affine]
    have hvv : (l.map fun x => RS.mul (RS.sub x μ) (RS.sub x μ)).sum = v * (l.length : ℝ) := by rw [hv]; field_simp
    rw [hvv, ← hσv]
    field_simp
    simp
  show Real.sqrt _ = 1
  rw [key, Real.sqrt_one]

/-- **unnormalize restores**: `((x − μ) / σ) · σ + μ = x` for `σ ≠ 0` -/
theorem unnormalize_inverse (x μ σ : ℝ) (h0 : σ ≠ 0) : RS.add (RS.mul (RS.div (RS.sub x μ) σ) σ) μ = x := by
  show (x - μ) / σ * σ + μ = x
  field_simp
  ring

/-! ### the two-point normaliser -/

theorem zipWith_both_map {α : Type} (f : α → α → α) (g k : α → α) (hfg : ∀ x y, f (g x) (g y) = k (f x y)) (l₁ l₂ : List (Option α)) :
    List.zipWith (both f) (l₁.map (Option.map g)) (l₂.map (Option.map g)) = (List.zipWith (both f) l₁ l₂).map (Option.map k) := by
  induction l₁ generalizing l₂ with
  | nil => simp
  | cons a as ih =>
    cases l₂ with
    | nil => simp
    | cons b bs =>
      simp only [List.map_cons, List.zipWith_cons_cons, ih]
      congr 1
      cases a <;> cases b <;> simp [both, hfg]

theorem filterMap_id_map {α : Type} (k : α → α) (l : List (Option α)) : (l.map (Option.map k)).filterMap id = (l.filterMap id).map k := by
  induction l with
  | nil => rfl
  | cons a as ih => cases a <;> simpa [List.filterMap_cons] using ih

theorem terms_map {α : Type} (k : α → α) (cols : List (List (Option α))) (i : Nat) :
    (cols.map (List.map (Option.map k))).filterMap (fun col => col.getD i none) = (cols.filterMap fun col => col.getD i none).map k := by
  induction cols with
  | nil => rfl
  | cons c cs ih =>
    have : (c.map (Option.map k)).getD i none = (c.getD i none).map k := by
      simp only [List.getD_eq_getElem?_getD, List.getElem?_map]
      cases c[i]? <;> rfl
    simp only [List.map_cons, List.filterMap_cons, this]
    cases c.getD i none with
    | none => simpa using ih
    | some v => simp only [Option.map_some, List.map_cons]; rw [ih]

section
variable {isZero : ℝ → Bool} {F P N D : Nat} {b : PBody ℝ}

/-- midpoints commute with a coordinate-wise affine map -/
theorem midVals_affine (h : BInv isZero F P N D b) (α : ℝ) (β : Nat → ℝ) (fps' : ℝ) (p1 p2 d : Nat) :
    midVals RS (mapCoords isZero (fun d x => α * x + β d) fps' b) p1 p2 d = (midVals RS b p1 p2 d).map fun m => α * m + β d := by
  unfold midVals
  rw [cellVals_mapCoords h, cellVals_mapCoords h, zipWith_both_map _ _ (fun m => α * m + β d), filterMap_id_map]
  intro x y
  simp only [RS_div, RS_add, RS_ofNat]
  push_cast
  ring

/-- reference distances scale by `|α|` under a coordinate-wise affine map with common factor `α` -/
theorem distVals_affine (h : BInv isZero F P N D b) (α : ℝ) (β : Nat → ℝ) (fps' : ℝ) (p1 p2 D' : Nat) :
    distVals RS (mapCoords isZero (fun d x => α * x + β d) fps' b) p1 p2 D' = (distVals RS b p1 p2 D').map fun x => |α| * x := by
  unfold distVals
  have hcols : ((List.range D').map fun d => List.zipWith (both fun x y => RS.mul (RS.sub x y) (RS.sub x y))
        (cellVals (mapCoords isZero (fun d x => α * x + β d) fps' b) p1 d) (cellVals (mapCoords isZero (fun d x => α * x + β d) fps' b) p2 d)) =
      ((List.range D').map fun d => List.zipWith (both fun x y => RS.mul (RS.sub x y) (RS.sub x y)) (cellVals b p1 d) (cellVals b p2 d)).map
        (List.map (Option.map fun v => α * α * v)) := by
    rw [List.map_map]
    apply List.map_congr_left
    intro d _
    simp only [Function.comp]
    rw [cellVals_mapCoords h, cellVals_mapCoords h, zipWith_both_map _ _ (fun v => α * α * v)]
    intro x y
    simp only [RS_mul, RS_sub]
    ring
  simp only [hcols]
  generalize ((List.range D').map fun d => List.zipWith (both fun x y => RS.mul (RS.sub x y) (RS.sub x y)) (cellVals b p1 d) (cellVals b p2 d)) = cols
  have hlen : ((cols.map (List.map (Option.map fun v => α * α * v))).headD []).length = (cols.headD []).length := by
    cases cols <;> simp
  rw [hlen, List.map_filterMap]
  apply List.filterMap_congr
  intro i _
  have hterms := terms_map (fun v => α * α * v) cols i
  simp only [hterms]
  by_cases he : (cols.filterMap fun col => col.getD i none).isEmpty = true
  · have he' : ((cols.filterMap fun col => col.getD i none).map fun v => α * α * v).isEmpty = true := by simpa using he
    rw [if_pos he', if_pos he]; rfl
  · have he' : ((cols.filterMap fun col => col.getD i none).map fun v => α * α * v).isEmpty = false := by simpa using he
    have he2 : (cols.filterMap fun col => col.getD i none).isEmpty = false := by simpa using he
    simp only [he', he2, Bool.false_eq_true, if_false, Option.map_some, Option.some.injEq, sumList_eq, RS_sqrt]
    have hs : ((cols.filterMap fun col => col.getD i none).map fun v => α * α * v).sum = α * α * (cols.filterMap fun col => col.getD i none).sum := by
      have := sum_map_affine (α * α) 0 (cols.filterMap fun col => col.getD i none)
      simpa using this
    rw [hs, Real.sqrt_mul (mul_self_nonneg α), Real.sqrt_mul_self_eq_abs]

end

end PoseVerif.Props.C13
