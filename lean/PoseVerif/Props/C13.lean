import PoseVerif.Model.Normalize3D
import PoseVerif.Proofs.NormLift
import Mathlib.Analysis.Real.Sqrt
import Mathlib.Tactic.Ring
import Mathlib.Tactic.FieldSimp
import Mathlib.Tactic.Linarith
import Mathlib.Tactic.NormNum
/-!
# C13 — normalisation removes exactly the variation it is meant to remove

The executable model (`Model/Normalize`, `Model/Normalize3D`) instantiated with the real numbers and `Real.sqrt`; float rounding is outside these statements.
-/
namespace PoseVerif.Props.C13
open PoseVerif

noncomputable instance : Inhabited ℝ := ⟨0⟩

open Classical in
/-- the scalar record of ℝ -/
noncomputable def realScalar : Scalar ℝ :=
  { zero := 0, add := (· + ·), sub := (· - ·), mul := (· * ·), div := (· / ·), pow := fun x _ => x, sqrt := Real.sqrt, ofNat := fun n => (n : ℝ),
    isFinite := fun _ => true, isNaN := fun _ => false, lt := fun a b => decide (a < b), neg := fun a => -a, ceilNat := fun _ => 0 }

noncomputable abbrev RS := realScalar

@[simp] theorem RS_add (a b : ℝ) : RS.add a b = a + b := rfl
@[simp] theorem RS_sub (a b : ℝ) : RS.sub a b = a - b := rfl
@[simp] theorem RS_mul (a b : ℝ) : RS.mul a b = a * b := rfl
@[simp] theorem RS_div (a b : ℝ) : RS.div a b = a / b := rfl
@[simp] theorem RS_sqrt (a : ℝ) : RS.sqrt a = Real.sqrt a := rfl
@[simp] theorem RS_zero : RS.zero = 0 := rfl
@[simp] theorem RS_neg (a : ℝ) : RS.neg a = -a := rfl
@[simp] theorem RS_ofNat (n : Nat) : RS.ofNat n = (n : ℝ) := rfl

theorem sumList_eq (l : List ℝ) : sumList RS l = l.sum := by
  unfold sumList
  have gen : ∀ (l : List ℝ) (a : ℝ), l.foldl RS.add a = a + l.sum := by
    intro l; induction l with
    | nil => intro a; simp
    | cons x xs ih => intro a; simp only [List.foldl_cons, List.sum_cons, ih, RS_add]; ring
  simpa using gen l 0

theorem meanOpt_eq (l : List ℝ) (h : l ≠ []) : meanOpt RS l = some (l.sum / (l.length : ℝ)) := by
  unfold meanOpt
  have : l.isEmpty = false := by cases l <;> simp_all
  simp only [this, sumList_eq]
  rfl

theorem meanOpt_some {l : List ℝ} {m : ℝ} (h : meanOpt RS l = some m) : l ≠ [] ∧ m = l.sum / (l.length : ℝ) := by
  by_cases hl : l = []
  · subst hl; simp [meanOpt] at h
  · rw [meanOpt_eq l hl] at h; exact ⟨hl, by cases h; rfl⟩

theorem length_ne_zero {l : List ℝ} (h : l ≠ []) : (l.length : ℝ) ≠ 0 := by
  cases l with
  | nil => exact absurd rfl h
  | cons x xs => simp only [List.length_cons]; exact_mod_cast Nat.succ_ne_zero xs.length

theorem sum_map_affine (a t : ℝ) (l : List ℝ) : (l.map fun v => a * v + t).sum = a * l.sum + t * (l.length : ℝ) := by
  induction l with
  | nil => simp
  | cons x xs ih => simp only [List.map_cons, List.sum_cons, ih, List.length_cons]; push_cast; ring

/-! ### distribution normalisation, one column (the values of one coordinate over the chosen axes) -/

/-- **zero mean**: after `(x − μ) / σ` the mean of the column is 0 -/
theorem distribution_mean_zero (l : List ℝ) (μ σ : ℝ) (hμ : meanOpt RS l = some μ) (hσ : σ ≠ 0) :
    meanOpt RS (l.map fun x => RS.div (RS.sub x μ) σ) = some 0 := by
  obtain ⟨hl, rfl⟩ := meanOpt_some hμ
  have hn := length_ne_zero hl
  rw [meanOpt_eq _ (by simpa using hl)]
  congr 1
  have : (l.map fun x => RS.div (RS.sub x (l.sum / (l.length : ℝ))) σ) = l.map fun v => (1 / σ) * v + (-(l.sum / (l.length : ℝ)) / σ) := by
    apply List.map_congr_left; intro x _; show (x - _) / σ = _; field_simp; ring
  rw [this, sum_map_affine, List.length_map]
  field_simp
  ring

/-- **unit deviation**: after `(x − μ) / σ` with the column's own mean and (non-zero) deviation, the deviation is 1 -/
theorem distribution_std_one (l : List ℝ) (μ σ : ℝ) (hμ : meanOpt RS l = some μ) (hσ : stdOpt RS l = some σ) (h0 : σ ≠ 0) :
    stdOpt RS (l.map fun x => RS.div (RS.sub x μ) σ) = some 1 := by
  have hm0 := distribution_mean_zero l μ σ hμ h0
  obtain ⟨hl, hμe⟩ := meanOpt_some hμ
  have hn := length_ne_zero hl
  -- σ = sqrt(v), v = mean of squared deviations
  unfold stdOpt at hσ ⊢
  simp only [hμ, Option.bind_eq_bind, Option.bind_some] at hσ
  rw [meanOpt_eq _ (by simpa using hl)] at hσ
  simp only [Option.bind_some, Option.some.injEq] at hσ
  simp only [hm0, Option.bind_eq_bind, Option.bind_some]
  rw [meanOpt_eq _ (by simpa using hl)]
  simp only [Option.bind_some, Option.some.injEq, List.map_map, List.length_map]
  set v := (l.map fun x => RS.mul (RS.sub x μ) (RS.sub x μ)).sum / (l.length : ℝ) with hv
  have hv0 : 0 ≤ v := by
    apply div_nonneg
    · apply List.sum_nonneg
      intro y hy
      obtain ⟨x, _, rfl⟩ := List.mem_map.mp hy
      exact mul_self_nonneg _
    · positivity
  have hσv : σ * σ = v := by
    rw [← hσ, List.length_map]; exact Real.mul_self_sqrt hv0
  have key : ((l.map ((fun x => RS.mul (RS.sub x 0) (RS.sub x 0)) ∘ fun x => RS.div (RS.sub x μ) σ)).sum / (l.length : ℝ)) = 1 := by
    have e : (l.map ((fun x => RS.mul (RS.sub x 0) (RS.sub x 0)) ∘ fun x => RS.div (RS.sub x μ) σ)) =
        (l.map fun x => RS.mul (RS.sub x μ) (RS.sub x μ)).map fun y => (1 / (σ * σ)) * y + 0 := by
      rw [List.map_map]
      apply List.map_congr_left; intro x _
      show ((x - μ) / σ - 0) * ((x - μ) / σ - 0) = 1 / (σ * σ) * ((x - μ) * (x - μ)) + 0
      field_simp
      ring
    rw [e, sum_map_affine]
    have hvv : (l.map fun x => RS.mul (RS.sub x μ) (RS.sub x μ)).sum = v * (l.length : ℝ) := by rw [hv]; field_simp
    rw [hvv, ← hσv]
    field_simp
    simp
  show Real.sqrt _ = 1
  rw [key, Real.sqrt_one]

/-- **unnormalize restores**: `((x − μ) / σ) · σ + μ = x` for `σ ≠ 0` -/
theorem unnormalize_inverse (x μ σ : ℝ) (h0 : σ ≠ 0) : RS.add (RS.mul (RS.div (RS.sub x μ) σ) σ) μ = x := by
  show (x - μ) / σ * σ + μ = x
  field_simp
  ring

/-! ### the two-point normaliser -/

theorem zipWith_both_map {α : Type} (f : α → α → α) (g k : α → α) (hfg : ∀ x y, f (g x) (g y) = k (f x y)) (l₁ l₂ : List (Option α)) :
    List.zipWith (both f) (l₁.map (Option.map g)) (l₂.map (Option.map g)) = (List.zipWith (both f) l₁ l₂).map (Option.map k) := by
  induction l₁ generalizing l₂ with
  | nil => simp
  | cons a as ih =>
    cases l₂ with
    | nil => simp
    | cons b bs =>
      simp only [List.map_cons, List.zipWith_cons_cons, ih]
      congr 1
      cases a <;> cases b <;> simp [both, hfg]

theorem filterMap_id_map {α : Type} (k : α → α) (l : List (Option α)) : (l.map (Option.map k)).filterMap id = (l.filterMap id).map k := by
  induction l with
  | nil => rfl
  | cons a as ih => cases a <;> simpa [List.filterMap_cons] using ih

theorem terms_map {α : Type} (k : α → α) (cols : List (List (Option α))) (i : Nat) :
    (cols.map (List.map (Option.map k))).filterMap (fun col => col.getD i none) = (cols.filterMap fun col => col.getD i none).map k := by
  induction cols with
  | nil => rfl
  | cons c cs ih =>
    have : (c.map (Option.map k)).getD i none = (c.getD i none).map k := by
      simp only [List.getD_eq_getElem?_getD, List.getElem?_map]
      cases c[i]? <;> rfl
    simp only [List.map_cons, List.filterMap_cons, this]
    cases c.getD i none with
    | none => simpa using ih
    | some v => simp only [Option.map_some, List.map_cons]; rw [ih]

section
variable {isZero : ℝ → Bool} {F P N D : Nat} {b : PBody ℝ}

/-- midpoints commute with a coordinate-wise affine map -/
theorem midVals_affine (h : BInv isZero F P N D b) (α : ℝ) (β : Nat → ℝ) (fps' : ℝ) (p1 p2 d : Nat) :
    midVals RS (mapCoords isZero (fun d x => α * x + β d) fps' b) p1 p2 d = (midVals RS b p1 p2 d).map fun m => α * m + β d := by
  unfold midVals
  rw [cellVals_mapCoords h, cellVals_mapCoords h, zipWith_both_map _ _ (fun m => α * m + β d), filterMap_id_map]
  intro x y
  simp only [RS_div, RS_add, RS_ofNat]
  push_cast
  ring

/-- reference distances scale by `|α|` under a coordinate-wise affine map with common factor `α` -/
theorem distVals_affine (h : BInv isZero F P N D b) (α : ℝ) (β : Nat → ℝ) (fps' : ℝ) (p1 p2 D' : Nat) :
    distVals RS (mapCoords isZero (fun d x => α * x + β d) fps' b) p1 p2 D' = (distVals RS b p1 p2 D').map fun x => |α| * x := by
  unfold distVals
  have hcols : ((List.range D').map fun d => List.zipWith (both fun x y => RS.mul (RS.sub x y) (RS.sub x y))
        (cellVals (mapCoords isZero (fun d x => α * x + β d) fps' b) p1 d) (cellVals (mapCoords isZero (fun d x => α * x + β d) fps' b) p2 d)) =
      ((List.range D').map fun d => List.zipWith (both fun x y => RS.mul (RS.sub x y) (RS.sub x y)) (cellVals b p1 d) (cellVals b p2 d)).map
        (List.map (Option.map fun v => α * α * v)) := by
    rw [List.map_map]
    apply List.map_congr_left
    intro d _
    simp only [Function.comp]
    rw [cellVals_mapCoords h, cellVals_mapCoords h, zipWith_both_map _ _ (fun v => α * α * v)]
    intro x y
    simp only [RS_mul, RS_sub]
    ring
  simp only [hcols]
  generalize ((List.range D').map fun d => List.zipWith (both fun x y => RS.mul (RS.sub x y) (RS.sub x y)) (cellVals b p1 d) (cellVals b p2 d)) = cols
  have hlen : ((cols.map (List.map (Option.map fun v => α * α * v))).headD []).length = (cols.headD []).length := by
    cases cols <;> simp
  rw [hlen, List.map_filterMap]
  apply List.filterMap_congr
  intro i _
  have hterms := terms_map (fun v => α * α * v) cols i
  simp only [hterms]
  by_cases he : (cols.filterMap fun col => col.getD i none).isEmpty = true
  · have he' : ((cols.filterMap fun col => col.getD i none).map fun v => α * α * v).isEmpty = true := by simpa using he
    rw [if_pos he', if_pos he]; rfl
  · have he' : ((cols.filterMap fun col => col.getD i none).map fun v => α * α * v).isEmpty = false := by simpa using he
    have he2 : (cols.filterMap fun col => col.getD i none).isEmpty = false := by simpa using he
    simp only [he', he2, Bool.false_eq_true, if_false, Option.map_some, Option.some.injEq, sumList_eq, RS_sqrt]
    have hs : ((cols.filterMap fun col => col.getD i none).map fun v => α * α * v).sum = α * α * (cols.filterMap fun col => col.getD i none).sum := by
      have := sum_map_affine (α * α) 0 (cols.filterMap fun col => col.getD i none)
      simpa using this
    rw [hs, Real.sqrt_mul (mul_self_nonneg α), Real.sqrt_mul_self_eq_abs]

theorem mapM_some_getD (f : Nat → Option ℝ) : ∀ (xs : List Nat) (out : List ℝ), xs.mapM f = some out →
    out.length = xs.length ∧ ∀ i (hi : i < xs.length), f xs[i] = some (out.getD i 0)
  | [], out, h => by simp at h; subst h; exact ⟨rfl, fun i hi => absurd hi (by simp)⟩
  | x :: xs, out, h => by
    simp only [List.mapM_cons, Option.bind_eq_bind, Option.bind_eq_some_iff, Option.pure_def, Option.some.injEq] at h
    obtain ⟨y, hy, rest, hrest, rfl⟩ := h
    obtain ⟨h1, h2⟩ := mapM_some_getD f xs rest hrest
    refine ⟨by simp [h1], ?_⟩
    intro i hi
    cases i with
    | zero => simpa using hy
    | succ j => simpa using h2 j (by simpa using hi)

theorem mapM_range_some (f : Nat → Option ℝ) (g : Nat → ℝ) (n : Nat) (h : ∀ d < n, f d = some (g d)) : (List.range n).mapM f = some ((List.range n).map g) := by
  have gen : ∀ (xs : List Nat), (∀ d ∈ xs, f d = some (g d)) → xs.mapM f = some (xs.map g) := by
    intro xs; induction xs with
    | nil => intro _; rfl
    | cons x xs ih =>
      intro hx
      simp only [List.mapM_cons, hx x (by simp), ih fun d hd => hx d (List.mem_cons_of_mem _ hd), Option.bind_eq_bind, Option.bind_some, Option.pure_def, List.map_cons]
  exact gen _ fun d hd => h d (List.mem_range.mp hd)

theorem distVals_nonneg (b : PBody ℝ) (p1 p2 D' : Nat) : ∀ x ∈ distVals RS b p1 p2 D', 0 ≤ x := by
  intro x hx
  unfold distVals at hx
  obtain ⟨i, _, hi⟩ := List.mem_filterMap.mp hx
  simp only [] at hi
  split at hi
  · cases hi
  · cases hi; exact Real.sqrt_nonneg _

theorem mean_affine (α β : ℝ) (l : List ℝ) (m : ℝ) (h : meanOpt RS l = some m) : meanOpt RS (l.map fun v => α * v + β) = some (α * m + β) := by
  obtain ⟨hl, rfl⟩ := meanOpt_some h
  have hn := length_ne_zero hl
  rw [meanOpt_eq _ (by simpa using hl), sum_map_affine, List.length_map]
  congr 1
  field_simp

/-- the normalised body is the coordinate-wise affine image `x ↦ (x − c_d) · s` of the input -/
theorem normalizeBody_eq (p1 p2 : Nat) (sf : ℝ) (b b' : PBody ℝ) (center : List ℝ) (md : ℝ) (hres : normalizeBody RS isZero p1 p2 sf b = some (b', center, md)) :
    b' = mapCoords isZero (fun d x => (sf / md) * x + (-(center.getD d 0) * (sf / md))) b.fps b ∧
    (List.range (numDimsBody b)).mapM (fun d => meanOpt RS (midVals RS b p1 p2 d)) = some center ∧ meanOpt RS (distVals RS b p1 p2 (numDimsBody b)) = some md := by
  unfold normalizeBody at hres
  simp only [Option.bind_eq_bind, Option.bind_eq_some_iff, Option.some.injEq, Prod.mk.injEq] at hres
  obtain ⟨c, hc, m, hm, rfl, rfl, rfl⟩ := hres
  refine ⟨?_, hc, hm⟩
  unfold mapCoords normalizePoint
  congr 4
  funext pt
  congr 1
  funext d x
  simp only [RS_mul, RS_sub, RS_div, RS_zero]
  ring

/-- **Postcondition of `normalize`**: confidences and missing pattern unchanged, mean midpoint of the reference points at the origin, mean reference distance
    equal to the requested scale. -/
theorem normalize_post (h : BInv isZero F P N D b) (p1 p2 : Nat) (sf : ℝ) (hsf : 0 < sf) (b' : PBody ℝ) (center : List ℝ) (md : ℝ)
    (hres : normalizeBody RS isZero p1 p2 sf b = some (b', center, md)) (hmd : md ≠ 0) :
    b'.conf = b.conf ∧ b'.missing = b.missing ∧
    (∀ d < numDimsBody b, meanOpt RS (midVals RS b' p1 p2 d) = some 0) ∧
    meanOpt RS (distVals RS b' p1 p2 (numDimsBody b)) = some sf := by
  obtain ⟨rfl, hc, hm⟩ := normalizeBody_eq p1 p2 sf b b' center md hres
  have hmd0 : 0 < md := by
    obtain ⟨hl, rfl⟩ := meanOpt_some hm
    have : 0 ≤ (distVals RS b p1 p2 (numDimsBody b)).sum / ((distVals RS b p1 p2 (numDimsBody b)).length : ℝ) :=
      div_nonneg (List.sum_nonneg (distVals_nonneg b p1 p2 _)) (by positivity)
    exact lt_of_le_of_ne this (Ne.symm hmd)
  have hs : 0 < sf / md := div_pos hsf hmd0
  refine ⟨by rw [mapCoords_eq h], by rw [mapCoords_eq h], ?_, ?_⟩
  · intro d hd
    obtain ⟨hlen, hget⟩ := mapM_some_getD _ _ _ hc
    have hcd := hget d (by simpa using hd)
    simp only [List.getElem_range] at hcd
    rw [midVals_affine h, mean_affine _ _ _ _ hcd]
    congr 1
    ring
  · rw [distVals_affine h]
    have := mean_affine |sf / md| 0 _ _ hm
    simp only [add_zero] at this
    rw [this, abs_of_pos hs]
    congr 1
    field_simp

theorem mapIdx_congr_lt {α β : Type} (f g : Nat → α → β) (l : List α) (h : ∀ i (hi : i < l.length), f i l[i] = g i l[i]) : l.mapIdx f = l.mapIdx g := by
  apply List.ext_getElem
  · simp
  · intro i h1 h2
    simp only [List.getElem_mapIdx]
    exact h i (by simpa using h1)

theorem mapCoords_inv (h : BInv isZero F P N D b) (g : Nat → ℝ → ℝ) (fps' : ℝ) : BInv isZero F P N D (mapCoords isZero g fps' b) :=
  (mapPoints_inv .numpy h (fun pt => pt.mapIdx g) (fun pt => by simp) fps').1

/-- **Similarity invariance of `normalize`**: translating the input by `t` and scaling it uniformly by `a > 0` gives exactly the same normalised body. -/
theorem normalize_similarity_invariant (h : BInv isZero F P N D b) (hF : 0 < F) (hP : 0 < P) (hN : 0 < N) (p1 p2 : Nat) (sf : ℝ) (a : ℝ) (ha : 0 < a) (t : Nat → ℝ)
    (b' : PBody ℝ) (center : List ℝ) (md : ℝ) (hres : normalizeBody RS isZero p1 p2 sf b = some (b', center, md)) (hmd : md ≠ 0) :
    ∃ center₂ md₂, normalizeBody RS isZero p1 p2 sf (mapCoords isZero (fun d x => a * x + t d) b.fps b) = some (b', center₂, md₂) := by
  obtain ⟨rfl, hc, hm⟩ := normalizeBody_eq p1 p2 sf b b' center md hres
  have h2 := mapCoords_inv h (fun d x => a * x + t d) b.fps
  have hD : numDimsBody b = D := numDims_of_rect h.data hF hP hN
  have hD2 : numDimsBody (mapCoords isZero (fun d x => a * x + t d) b.fps b) = D := numDims_of_rect h2.data hF hP hN
  obtain ⟨hlen, hget⟩ := mapM_some_getD _ _ _ hc
  simp only [List.length_range] at hlen
  refine ⟨(List.range D).map fun d => a * center.getD d 0 + t d, a * md, ?_⟩
  unfold normalizeBody
  rw [hD2]
  have hc2 : (List.range D).mapM (fun d => meanOpt RS (midVals RS (mapCoords isZero (fun d x => a * x + t d) b.fps b) p1 p2 d)) =
      some ((List.range D).map fun d => a * center.getD d 0 + t d) := by
    apply mapM_range_some
    intro d hd
    have hcd := hget d (by simpa [hD] using hd)
    simp only [List.getElem_range] at hcd
    rw [midVals_affine h, mean_affine _ _ _ _ hcd]
  have hm2 : meanOpt RS (distVals RS (mapCoords isZero (fun d x => a * x + t d) b.fps b) p1 p2 D) = some (a * md) := by
    rw [distVals_affine h]
    have := mean_affine |a| 0 _ _ (hD ▸ hm)
    simp only [add_zero] at this
    rw [this, abs_of_pos ha]
  simp only [hc2, hm2, Option.bind_eq_bind, Option.bind_some, Option.some.injEq, Prod.mk.injEq, and_true]
  rw [mapCoords_eq h (fun d x => a * x + t d)]
  show mkBody Backend.numpy isZero b.fps
      ((b.data.map (List.map (List.map fun pt => List.mapIdx (fun d x => a * x + t d) pt))).map
        (List.map (List.map (normalizePoint RS (List.map (fun d => a * center.getD d 0 + t d) (List.range D)) (RS.div sf (a * md))))))
      b.conf (some b.missing) =
    mkBody Backend.numpy isZero b.fps (b.data.map (List.map (List.map fun pt => List.mapIdx (fun d x => sf / md * x + -center.getD d 0 * (sf / md)) pt))) b.conf (some b.missing)
  -- both sides are the constructor applied to point-wise images of the same data
  have hdata : ((b.data.map (List.map (List.map fun pt => List.mapIdx (fun d x => a * x + t d) pt))).map
        (List.map (List.map (normalizePoint RS (List.map (fun d => a * center.getD d 0 + t d) (List.range D)) (RS.div sf (a * md)))))) =
      b.data.map (List.map (List.map fun pt => List.mapIdx (fun d x => sf / md * x + -center.getD d 0 * (sf / md)) pt)) := by
    rw [List.map_map]
    apply List.map_congr_left
    intro fr hfr
    simp only [Function.comp, List.map_map]
    apply List.map_congr_left
    intro pe hpe
    simp only [Function.comp, List.map_map]
    apply List.map_congr_left
    intro pt hpt
    have hpl : pt.length = D := ((h.data.2 fr hfr).2 pe hpe).2 pt hpt
    simp only [Function.comp, normalizePoint, List.mapIdx_mapIdx]
    apply mapIdx_congr_lt
    intro i hi
    have hi' : i < D := by rw [← hpl]; exact hi
    have hg : ((List.range D).map fun d => a * center.getD d 0 + t d).getD i RS.zero = a * center.getD i 0 + t i := by
      simp [List.getD_eq_getElem?_getD, hi']
    simp only [hg, RS_mul, RS_sub, RS_div, Function.comp]
    have ha' : a ≠ 0 := ne_of_gt ha
    field_simp
    ring
  rw [hdata]

end

/-! ### the 3-D plane / line normaliser, one frame and person -/

section threeD

theorem getD_map_lt {α β : Type} [Inhabited α] [Inhabited β] (f : α → β) (l : List α) (i : Nat) (h : i < l.length) : (l.map f).getD i default = f (l.getD i default) := by
  simp [List.getD_eq_getElem?_getD, List.getElem?_eq_getElem h]

@[simp] theorem length_stage1 (info : Norm3DInfo) (pts : List (V3S ℝ)) : (stage1 RS info pts).length = pts.length := by simp [stage1]
@[simp] theorem length_stage2 (info : Norm3DInfo) (l : List (V3S ℝ)) : (stage2 RS info l).length = l.length := by simp [stage2]
@[simp] theorem length_stage3 (info : Norm3DInfo) (size : ℝ) (l : List (V3S ℝ)) : (stage3 RS info size l).length = l.length := by simp [stage3]

/-- all five reference indexes denote points of the pose -/
def InRange (info : Norm3DInfo) (n : Nat) : Prop :=
  info.plane.1 < n ∧ info.plane.2.1 < n ∧ info.plane.2.2 < n ∧ info.line.1 < n ∧ info.line.2 < n

/-- **the first line point goes to the origin** -/
theorem line_p1_at_origin (info : Norm3DInfo) (size : ℝ) (pts : List (V3S ℝ)) (h : info.line.1 < pts.length) :
    (normalize3DPerson RS info size pts).getD info.line.1 default = (0, 0, 0) := by
  unfold normalize3DPerson stage3
  simp only []
  rw [getD_map_lt _ _ _ (by simpa using h)]
  simp [v3sub]

/-- after the change of basis the three plane points have z = 0 (the normal is orthogonal to both edge vectors) -/
theorem stage1_plane_z (info : Norm3DInfo) (pts : List (V3S ℝ)) (hr : InRange info pts.length) (k : Nat)
    (hk : k = info.plane.1 ∨ k = info.plane.2.1 ∨ k = info.plane.2.2) : ((stage1 RS info pts).getD k default).2.2 = 0 := by
  have hkl : k < pts.length := by rcases hk with rfl | rfl | rfl; exact hr.1; exact hr.2.1; exact hr.2.2.1
  unfold stage1
  simp only []
  rw [getD_map_lt _ _ _ hkl]
  rcases hk with rfl | rfl | rfl <;> simp only [v3dot, v3sub, v3cross, v3norm, RS_add, RS_sub, RS_mul, RS_div] <;> ring

/-- the in-plane rotation and the scaling keep z = 0; the final translation does when the first line point is itself a plane point -/
theorem plane_at_z0_partial (info : Norm3DInfo) (size : ℝ) (pts : List (V3S ℝ)) (hr : InRange info pts.length)
    (hin : info.line.1 = info.plane.1 ∨ info.line.1 = info.plane.2.1 ∨ info.line.1 = info.plane.2.2) (k : Nat)
    (hk : k = info.plane.1 ∨ k = info.plane.2.1 ∨ k = info.plane.2.2) : ((normalize3DPerson RS info size pts).getD k default).2.2 = 0 := by
  have hkl : k < pts.length := by rcases hk with rfl | rfl | rfl; exact hr.1; exact hr.2.1; exact hr.2.2.1
  have hz : ∀ j, (j = info.plane.1 ∨ j = info.plane.2.1 ∨ j = info.plane.2.2) → j < pts.length → ((stage2 RS info (stage1 RS info pts)).getD j default).2.2 = 0 := by
    intro j hj hjl
    unfold stage2
    simp only []
    rw [getD_map_lt _ _ _ (by simpa using hjl)]
    exact stage1_plane_z info pts hr j hj
  unfold normalize3DPerson stage3
  simp only []
  rw [getD_map_lt _ _ _ (by simpa using hkl), getD_map_lt _ _ _ (by simpa using hkl), getD_map_lt _ _ _ (by simpa using hr.2.2.2.1)]
  simp only [v3sub, v3scale, RS_sub, RS_mul]
  rw [hz k hk hkl, hz info.line.1 hin hr.2.2.2.1]
  ring

/-- **the line lands on the negative Y half-plane with the requested 3-D length**: for a line whose projection on the plane is not a point (`r ≠ 0`) and `size > 0`,
    the second line point is `(0, y, z)` with `y < 0`, and its distance from the origin (where the first line point is) is `size`. -/
theorem line_on_negative_y (info : Norm3DInfo) (size : ℝ) (hsize : 0 < size) (pts : List (V3S ℝ)) (hr : InRange info pts.length)
    (hproj : let v := v3sub RS ((stage1 RS info pts).getD info.line.2 default) ((stage1 RS info pts).getD info.line.1 default); v.1 * v.1 + v.2.1 * v.2.1 ≠ 0) :
    let q := (normalize3DPerson RS info size pts).getD info.line.2 default
    q.1 = 0 ∧ q.2.1 < 0 ∧ v3norm RS q = size := by
  intro q
  have h1 : info.line.1 < (stage1 RS info pts).length := by simpa using hr.2.2.2.1
  have h2 : info.line.2 < (stage1 RS info pts).length := by simpa using hr.2.2.2.2
  generalize hl : stage1 RS info pts = l at *
  -- the rotated line vector
  rcases hA : l.getD info.line.1 default with ⟨ax, ay, az⟩
  rcases hB : l.getD info.line.2 default with ⟨bx, by', bz⟩
  simp only [hA, hB, v3sub, RS_sub] at hproj
  set vx := bx - ax with hvx
  set vy := by' - ay with hvy
  set vz := bz - az with hvz
  have hr2pos : 0 < vx * vx + vy * vy := lt_of_le_of_ne (add_nonneg (mul_self_nonneg _) (mul_self_nonneg _)) (Ne.symm hproj)
  set r := Real.sqrt (vx * vx + vy * vy) with hrdef
  have hrpos : 0 < r := Real.sqrt_pos.mpr hr2pos
  have hrr : r * r = vx * vx + vy * vy := Real.mul_self_sqrt (le_of_lt hr2pos)
  have hm1 : (stage2 RS info l).getD info.line.1 default = ((-vy / r) * ax + (vx / r) * ay, -(vx / r) * ax + (-vy / r) * ay, az) := by
    unfold stage2; simp only []
    rw [getD_map_lt _ _ _ h1, hA, hB]
    simp only [v3sub, RS_sub, RS_add, RS_mul, RS_div, RS_neg, RS_sqrt]
    rfl
  have hm2 : (stage2 RS info l).getD info.line.2 default = ((-vy / r) * bx + (vx / r) * by', -(vx / r) * bx + (-vy / r) * by', bz) := by
    unfold stage2; simp only []
    rw [getD_map_lt _ _ _ h2, hA, hB]
    simp only [v3sub, RS_sub, RS_add, RS_mul, RS_div, RS_neg, RS_sqrt]
    rfl
  have hdx : ((-vy / r) * bx + (vx / r) * by') - ((-vy / r) * ax + (vx / r) * ay) = 0 := by
    have : ((-vy / r) * bx + (vx / r) * by') - ((-vy / r) * ax + (vx / r) * ay) = (-vy * vx + vx * vy) / r := by rw [hvx, hvy]; field_simp; ring
    rw [this]; ring_nf
  have hdy : (-(vx / r) * bx + (-vy / r) * by') - (-(vx / r) * ax + (-vy / r) * ay) = -r := by
    have : (-(vx / r) * bx + (-vy / r) * by') - (-(vx / r) * ax + (-vy / r) * ay) = -(vx * vx + vy * vy) / r := by rw [hvx, hvy]; field_simp; ring
    rw [this, ← hrr]; field_simp
  -- scaling and translation
  set cur := Real.sqrt ((0 : ℝ) * 0 + (-r) * (-r) + vz * vz) with hcur
  have hcurpos : 0 < cur := Real.sqrt_pos.mpr (by nlinarith [mul_pos hrpos hrpos, mul_self_nonneg vz])
  have hcc : cur * cur = r * r + vz * vz := by rw [hcur, Real.mul_self_sqrt (by nlinarith [mul_self_nonneg r, mul_self_nonneg vz])]; ring
  have hq : q = (0, (size / cur) * (-r), (size / cur) * vz) := by
    show (normalize3DPerson RS info size pts).getD info.line.2 default = _
    unfold normalize3DPerson stage3
    simp only [hl]
    rw [getD_map_lt _ _ _ (by simpa using h2), getD_map_lt _ _ _ (by simpa using h2), getD_map_lt _ _ _ (by simpa using h1), hm1, hm2]
    simp only [v3sub, v3scale, v3norm, v3dot, RS_sub, RS_mul, RS_div, RS_add, RS_sqrt, hdx, hdy, ← hvz, ← hcur]
    refine Prod.ext ?_ (Prod.ext ?_ ?_) <;> simp only []
    · have e : (-vy / r * bx + vx / r * by') * (size / cur) - (-vy / r * ax + vx / r * ay) * (size / cur) =
          ((-vy / r * bx + vx / r * by') - (-vy / r * ax + vx / r * ay)) * (size / cur) := by ring
      rw [e, hdx]; ring
    · have := hdy
      have e : (-(vx / r) * bx + -vy / r * by') * (size / cur) - (-(vx / r) * ax + -vy / r * ay) * (size / cur) =
          ((-(vx / r) * bx + -vy / r * by') - (-(vx / r) * ax + -vy / r * ay)) * (size / cur) := by ring
      rw [e, this]; ring
    · ring
  have hs : 0 < size / cur := div_pos hsize hcurpos
  refine ⟨by rw [hq], by rw [hq]; exact mul_neg_of_pos_of_neg hs (by linarith), ?_⟩
  rw [hq]
  simp only [v3norm, v3dot, RS_add, RS_mul, RS_sqrt]
  have : (0 : ℝ) * 0 + size / cur * -r * (size / cur * -r) + size / cur * vz * (size / cur * vz) = size * size := by
    have hc0 : cur ≠ 0 := ne_of_gt hcurpos
    field_simp
    nlinarith [hcc]
  rw [this, Real.sqrt_mul_self (le_of_lt hsize)]

/-! #### invariance under translation and uniform scaling of the input -/

def trans3 (t : V3S ℝ) (p : V3S ℝ) : V3S ℝ := (p.1 + t.1, p.2.1 + t.2.1, p.2.2 + t.2.2)
def scale3 (a : ℝ) (p : V3S ℝ) : V3S ℝ := (a * p.1, a * p.2.1, a * p.2.2)

theorem v3sub_trans (t a b : V3S ℝ) : v3sub RS (trans3 t a) (trans3 t b) = v3sub RS a b := by
  simp only [v3sub, trans3, RS_sub]
  refine Prod.ext ?_ (Prod.ext ?_ ?_) <;> simp only [] <;> ring

/-- **translation invariance**: the change of basis only looks at differences from the first plane point -/
theorem normalize3D_translation_invariant (info : Norm3DInfo) (size : ℝ) (pts : List (V3S ℝ)) (hr : InRange info pts.length) (t : V3S ℝ) :
    normalize3DPerson RS info size (pts.map (trans3 t)) = normalize3DPerson RS info size pts := by
  unfold normalize3DPerson
  congr 2
  unfold stage1
  simp only [getD_map_lt (trans3 t) pts _ hr.1, getD_map_lt (trans3 t) pts _ hr.2.1, getD_map_lt (trans3 t) pts _ hr.2.2.1, List.map_map, v3sub_trans]
  apply List.map_congr_left
  intro p _
  simp only [Function.comp, v3sub_trans]

theorem sqrt_scale_sq (a x : ℝ) (ha : 0 ≤ a) : Real.sqrt (a * a * x) = a * Real.sqrt x := by
  rw [Real.sqrt_mul (mul_self_nonneg a), Real.sqrt_mul_self ha]

theorem stage1_scale (info : Norm3DInfo) (pts : List (V3S ℝ)) (hr : InRange info pts.length) (a : ℝ) (ha : 0 < a) :
    stage1 RS info (pts.map (scale3 a)) = (stage1 RS info pts).map (scale3 a) := by
  unfold stage1
  simp only [getD_map_lt (scale3 a) pts _ hr.1, getD_map_lt (scale3 a) pts _ hr.2.1, getD_map_lt (scale3 a) pts _ hr.2.2.1, List.map_map]
  apply List.map_congr_left
  intro p _
  rcases p with ⟨px, py, pz⟩
  rcases h0 : pts.getD info.plane.1 default with ⟨ax, ay, az⟩
  rcases h1 : pts.getD info.plane.2.1 default with ⟨bx, by', bz⟩
  rcases h2 : pts.getD info.plane.2.2 default with ⟨cx, cy, cz⟩
  simp only [Function.comp, scale3, v3sub, v3dot, v3cross, v3norm, RS_sub, RS_mul, RS_add, RS_div, RS_sqrt, RS_zero, RS_ofNat]
  -- the normal scales by a², its length by a², so the unit normal (hence the basis) is unchanged
  set nx := (by' - ay) * (cz - az) - (bz - az) * (cy - ay) with hnx
  set ny := (bz - az) * (cx - ax) - (bx - ax) * (cz - az) with hny
  set nz := (bx - ax) * (cy - ay) - (by' - ay) * (cx - ax) with hnz
  have e1 : (a * by' - a * ay) * (a * cz - a * az) - (a * bz - a * az) * (a * cy - a * ay) = a * a * nx := by rw [hnx]; ring
  have e2 : (a * bz - a * az) * (a * cx - a * ax) - (a * bx - a * ax) * (a * cz - a * az) = a * a * ny := by rw [hny]; ring
  have e3 : (a * bx - a * ax) * (a * cy - a * ay) - (a * by' - a * ay) * (a * cx - a * ax) = a * a * nz := by rw [hnz]; ring
  rw [e1, e2, e3]
  have hlen : Real.sqrt (a * a * nx * (a * a * nx) + a * a * ny * (a * a * ny) + a * a * nz * (a * a * nz)) = a * a * Real.sqrt (nx * nx + ny * ny + nz * nz) := by
    have : a * a * nx * (a * a * nx) + a * a * ny * (a * a * ny) + a * a * nz * (a * a * nz) = (a * a) * (a * a) * (nx * nx + ny * ny + nz * nz) := by ring
    rw [this, sqrt_scale_sq (a * a) _ (mul_self_nonneg a)]
  rw [hlen]
  set len := Real.sqrt (nx * nx + ny * ny + nz * nz)
  have ha2 : a * a ≠ 0 := ne_of_gt (mul_pos ha ha)
  have hz : ∀ w : ℝ, a * a * w / (a * a * len) = w / len := fun w => mul_div_mul_left w len ha2
  simp only [hz, Nat.cast_one]
  refine Prod.ext ?_ (Prod.ext ?_ ?_) <;> simp only [] <;> ring

theorem stage2_scale (info : Norm3DInfo) (l : List (V3S ℝ)) (h1 : info.line.1 < l.length) (h2 : info.line.2 < l.length) (a : ℝ) (ha : 0 < a) :
    stage2 RS info (l.map (scale3 a)) = (stage2 RS info l).map (scale3 a) := by
  unfold stage2
  simp only [getD_map_lt (scale3 a) l _ h1, getD_map_lt (scale3 a) l _ h2, List.map_map]
  apply List.map_congr_left
  intro p _
  rcases p with ⟨px, py, pz⟩
  rcases hA : l.getD info.line.1 default with ⟨ax, ay, az⟩
  rcases hB : l.getD info.line.2 default with ⟨bx, by', bz⟩
  simp only [Function.comp, scale3, v3sub, RS_sub, RS_mul, RS_add, RS_div, RS_sqrt, RS_neg]
  have hr : Real.sqrt ((a * bx - a * ax) * (a * bx - a * ax) + (a * by' - a * ay) * (a * by' - a * ay)) = a * Real.sqrt ((bx - ax) * (bx - ax) + (by' - ay) * (by' - ay)) := by
    have : (a * bx - a * ax) * (a * bx - a * ax) + (a * by' - a * ay) * (a * by' - a * ay) = a * a * ((bx - ax) * (bx - ax) + (by' - ay) * (by' - ay)) := by ring
    rw [this, sqrt_scale_sq a _ (le_of_lt ha)]
  rw [hr]
  set r := Real.sqrt ((bx - ax) * (bx - ax) + (by' - ay) * (by' - ay))
  have ha0 : a ≠ 0 := ne_of_gt ha
  have hc : -(a * by' - a * ay) / (a * r) = -(by' - ay) / r := by
    rw [show -(a * by' - a * ay) = a * -(by' - ay) by ring]; exact mul_div_mul_left _ r ha0
  have hs : (a * bx - a * ax) / (a * r) = (bx - ax) / r := by
    rw [show (a * bx - a * ax) = a * (bx - ax) by ring]; exact mul_div_mul_left _ r ha0
  rw [hc, hs]
  refine Prod.ext ?_ (Prod.ext ?_ ?_) <;> simp only [] <;> ring

theorem stage3_scale (info : Norm3DInfo) (size : ℝ) (l : List (V3S ℝ)) (h1 : info.line.1 < l.length) (h2 : info.line.2 < l.length) (a : ℝ) (ha : 0 < a) :
    stage3 RS info size (l.map (scale3 a)) = stage3 RS info size l := by
  unfold stage3
  simp only [getD_map_lt (scale3 a) l _ h1, getD_map_lt (scale3 a) l _ h2, List.map_map]
  rcases hA : l.getD info.line.1 default with ⟨ax, ay, az⟩
  rcases hB : l.getD info.line.2 default with ⟨bx, by', bz⟩
  have hcur : v3norm RS (v3sub RS (scale3 a (bx, by', bz)) (scale3 a (ax, ay, az))) = a * v3norm RS (v3sub RS (bx, by', bz) (ax, ay, az)) := by
    simp only [scale3, v3sub, v3norm, v3dot, RS_sub, RS_mul, RS_add, RS_sqrt]
    have : (a * bx - a * ax) * (a * bx - a * ax) + (a * by' - a * ay) * (a * by' - a * ay) + (a * bz - a * az) * (a * bz - a * az) =
        a * a * ((bx - ax) * (bx - ax) + (by' - ay) * (by' - ay) + (bz - az) * (bz - az)) := by ring
    rw [this, sqrt_scale_sq a _ (le_of_lt ha)]
  rw [hcur]
  set cur := v3norm RS (v3sub RS (bx, by', bz) (ax, ay, az))
  have ha0 : a ≠ 0 := ne_of_gt ha
  have hpt : ∀ p : V3S ℝ, v3scale RS (RS.div size (a * cur)) (scale3 a p) = v3scale RS (RS.div size cur) p := by
    intro ⟨px, py, pz⟩
    simp only [v3scale, scale3, RS_mul, RS_div]
    have e : ∀ w : ℝ, a * w * (size / (a * cur)) = w * (size / cur) := by
      intro w
      rw [show a * w * (size / (a * cur)) = w * (a * size / (a * cur)) by ring, mul_div_mul_left _ cur ha0]
    simp only [e]
  have hmap : (l.map ((v3scale RS (RS.div size (a * cur))) ∘ scale3 a)) = l.map (v3scale RS (RS.div size cur)) := by
    apply List.map_congr_left; intro p _; exact hpt p
  simp only [hmap]
  apply List.map_congr_left
  intro p _
  simp only [Function.comp, hpt]

/-- **scale invariance**: multiplying every coordinate by `a > 0` does not change the output -/
theorem normalize3D_scale_invariant (info : Norm3DInfo) (size : ℝ) (pts : List (V3S ℝ)) (hr : InRange info pts.length) (a : ℝ) (ha : 0 < a) :
    normalize3DPerson RS info size (pts.map (scale3 a)) = normalize3DPerson RS info size pts := by
  unfold normalize3DPerson
  rw [stage1_scale info pts hr a ha, stage2_scale info _ (by simpa using hr.2.2.2.1) (by simpa using hr.2.2.2.2) a ha,
    stage3_scale info size _ (by simpa using hr.2.2.2.1) (by simpa using hr.2.2.2.2) a ha]

end threeD

/-! ### rotation: the full-strength statement is FALSE of the model (and of the implementation: known finding K2) -/

section rotation

theorem sqrt25 : Real.sqrt 25 = 5 := by rw [show (25 : ℝ) = 5 * 5 by norm_num]; exact Real.sqrt_mul_self (by norm_num)
theorem sqrt9 : Real.sqrt 9 = 3 := by rw [show (9 : ℝ) = 3 * 3 by norm_num]; exact Real.sqrt_mul_self (by norm_num)

def k2pts : List (V3S ℝ) := [(0, 0, 0), (3, 0, 4), (0, 1, 0), (1, 1, 1)]
def k2info : Norm3DInfo := ⟨(0, 1, 2), (0, 1)⟩
/-- rotation by 90° about the Z axis -/
def rotZ90 (p : V3S ℝ) : V3S ℝ := (-p.2.1, p.1, p.2.2)

theorem k2_original : ((normalize3DPerson RS k2info 1 k2pts).getD 3 default).2.2 = -1 / 15 := by
  simp only [normalize3DPerson, stage3, stage2, stage1, k2pts, k2info, List.map_cons, List.map_nil, List.getD_cons_zero, List.getD_cons_succ,
    v3sub, v3dot, v3cross, v3norm, v3scale, RS_sub, RS_mul, RS_add, RS_div, RS_sqrt, RS_neg, RS_zero, RS_ofNat]
  norm_num [sqrt25, sqrt9]

theorem k2_rotated : ((normalize3DPerson RS k2info 1 (k2pts.map rotZ90)).getD 3 default).2.2 = -1 / 25 := by
  simp only [normalize3DPerson, stage3, stage2, stage1, k2pts, k2info, rotZ90, List.map_cons, List.map_nil, List.getD_cons_zero, List.getD_cons_succ,
    v3sub, v3dot, v3cross, v3norm, v3scale, RS_sub, RS_mul, RS_add, RS_div, RS_sqrt, RS_neg, RS_zero, RS_ofNat]
  norm_num [sqrt25, sqrt9]

/-- **Not rotation-invariant**: a non-degenerate pose (plane (0,0,0), (3,0,4), (0,1,0); line = its first edge) whose normalisation changes when the input is rotated
    by 90° about Z — the fourth point's z is −1/15 before and −1/25 after. The change of basis uses `y = x₀ × z`, `x = z × y`, unit vectors only when the normal is
    orthogonal to the X axis. -/
theorem not_rotation_invariant : ∃ (info : Norm3DInfo) (size : ℝ) (pts : List (V3S ℝ)) (R : V3S ℝ → V3S ℝ),
    InRange info pts.length ∧ (∀ p q, v3dot RS (R p) (R q) = v3dot RS p q) ∧
    normalize3DPerson RS info size (pts.map R) ≠ normalize3DPerson RS info size pts := by
  refine ⟨k2info, 1, k2pts, rotZ90, by simp [InRange, k2info, k2pts], ?_, ?_⟩
  · intro p q; simp only [v3dot, rotZ90, RS_add, RS_mul]; ring
  · intro h
    have h1 := k2_original
    have h2 := k2_rotated
    rw [h, h1] at h2
    norm_num at h2

end rotation

/-! ### non-vacuity of the hypotheses -/

example : InRange k2info k2pts.length := by simp [InRange, k2info, k2pts]

end PoseVerif.Props.C13
