import PoseVerif.Model.Frames
import PoseVerif.Proofs.PoseOps
/-!
# C16 — frame selection, stepping and dropout return real frames in order
-/
namespace PoseVerif.Props.C16
open PoseVerif
variable {S : Type}

/-- Selecting frames returns exactly the requested frames in the requested order: result frame `j` is source frame `ixs[j]` — coordinates, confidences and flags. -/
theorem select_exact [Inhabited S] (be : Backend) (isZero : S → Bool) (ixs : List Nat) (b r : PBody S) (h : selectFrames be isZero ixs b = some r) :
    r.data = ixs.map (fun i => b.data.getD i default) ∧ r.conf = ixs.map (fun i => b.conf.getD i default) ∧ r.fps = b.fps ∧ ∀ i ∈ ixs, i < numFrames b := by
  unfold selectFrames at h
  split at h
  · rename_i hall
    simp only [Option.some.injEq] at h
    subst h
    refine ⟨?_, ?_, ?_, ?_⟩
    · cases be <;> rfl
    · cases be <;> rfl
    · cases be <;> rfl
    · simpa using hall
  · cases h

/-! ### frame slices `body[a:b:step]` (Python's `slice.indices`, positive steps) -/

theorem pyBound_le (x : Option Int) (dflt n : Nat) (hd : dflt ≤ n) : pyBound x dflt n ≤ n := by
  unfold pyBound
  split
  · exact hd
  · split <;> omega

/-- membership: exactly the positions `start + j·step` below the stop bound -/
theorem mem_pySliceIndexes (a b : Option Int) (step n i : Nat) (hs : 0 < step) :
    i ∈ pySliceIndexes a b step n ↔ pyBound a 0 n ≤ i ∧ i < pyBound b n n ∧ (i - pyBound a 0 n) % step = 0 := by
  unfold pySliceIndexes
  simp only [List.mem_map, List.mem_range]
  constructor
  · rintro ⟨j, hj, rfl⟩
    have hlt : j * step < pyBound b n n - pyBound a 0 n := by
      have := (Nat.lt_div_iff_mul_lt hs).mp hj
      omega
    refine ⟨by omega, by omega, ?_⟩
    have : pyBound a 0 n + j * step - pyBound a 0 n = j * step := by omega
    rw [this]; exact Nat.mul_mod_left j step
  · rintro ⟨h1, h2, h3⟩
    refine ⟨(i - pyBound a 0 n) / step, ?_, ?_⟩
    · apply (Nat.lt_div_iff_mul_lt hs).mpr
      have := Nat.div_mul_cancel (Nat.dvd_of_mod_eq_zero h3)
      omega
    · have := Nat.div_mul_cancel (Nat.dvd_of_mod_eq_zero h3)
      omega

/-- every frame a slice names exists -/
theorem pySliceIndexes_lt (a b : Option Int) (step n : Nat) (hs : 0 < step) : ∀ i ∈ pySliceIndexes a b step n, i < n := by
  intro i hi
  have := (mem_pySliceIndexes a b step n i hs).mp hi
  have := pyBound_le b n n (Nat.le_refl n)
  omega

/-- … and they come in strictly increasing order -/
theorem pySliceIndexes_sorted (a b : Option Int) (step n : Nat) (hs : 0 < step) : (pySliceIndexes a b step n).Pairwise (· < ·) := by
  unfold pySliceIndexes
  rw [List.pairwise_map]
  refine List.Pairwise.imp ?_ (List.pairwise_lt_range)
  intro x y hxy
  have := Nat.mul_lt_mul_of_lt_of_le hxy (Nat.le_refl step) hs
  omega

/-- A frame slice with a positive step never fails, and returns exactly the frames Python's slice names, in order, at the same rate. -/
theorem slice_exact [Inhabited S] (be : Backend) (isZero : S → Bool) (a b : Option Int) (step : Nat) (hs : 0 < step) (body : PBody S) :
    ∃ r, sliceFrames be isZero a b step body = some r ∧
      r.data = (pySliceIndexes a b step (numFrames body)).map (fun i => body.data.getD i default) ∧
      r.conf = (pySliceIndexes a b step (numFrames body)).map (fun i => body.conf.getD i default) ∧ r.fps = body.fps := by
  have hall : (pySliceIndexes a b step (numFrames body)).all (· < numFrames body) = true := by
    simpa using pySliceIndexes_lt a b step (numFrames body) hs
  have h : sliceFrames be isZero a b step body = some (mkBody be isZero body.fps (pickD (pySliceIndexes a b step (numFrames body)) body.data)
      (pickD (pySliceIndexes a b step (numFrames body)) body.conf) (some (pickD (pySliceIndexes a b step (numFrames body)) body.missing))) := by
    simp [sliceFrames, selectFrames, hall, Nat.ne_of_gt hs]
  have h' : selectFrames be isZero (pySliceIndexes a b step (numFrames body)) body = some (mkBody be isZero body.fps (pickD (pySliceIndexes a b step (numFrames body)) body.data)
      (pickD (pySliceIndexes a b step (numFrames body)) body.conf) (some (pickD (pySliceIndexes a b step (numFrames body)) body.missing))) := by
    simp [selectFrames, hall]
  obtain ⟨h1, h2, h3, _⟩ := select_exact be isZero _ body _ h'
  exact ⟨_, h, h1, h2, h3⟩

/-- `[::k]` is stepping: the slice without bounds names the frames 0, k, 2k, … that `slice_step(k)` returns. -/
theorem slice_unbounded_is_step (k n : Nat) : pySliceIndexes none none k n = (List.range ((n + k - 1) / k)).map (fun j => j * k) := by
  simp [pySliceIndexes, pyBound]

/-- the empty prefix `[:0]`, and a stop at or before the start, name no frame -/
theorem slice_empty (a : Option Int) (step n : Nat) (hs : 0 < step) : pySliceIndexes a (some 0) step n = [] := by
  have : ∀ i, i ∉ pySliceIndexes a (some 0) step n := by
    intro i hi
    have := (mem_pySliceIndexes a (some 0) step n i hs).mp hi
    simp [pyBound] at this
  exact List.eq_nil_iff_forall_not_mem.mpr this

example : pySliceIndexes none (some (-1)) 1 5 = [0, 1, 2, 3] ∧ pySliceIndexes (some (-3)) none 1 5 = [2, 3, 4] ∧ pySliceIndexes (some 1) (some (-2)) 1 5 = [1, 2]
    ∧ pySliceIndexes none none 2 5 = [0, 2, 4] ∧ pySliceIndexes (some (-9)) (some 9) 3 5 = [0, 3] ∧ pySliceIndexes (some 4) (some 1) 1 5 = [] := by decide


/-- The empty request is a request like any other: on every backend and every body it succeeds and yields the pose of no frames at the same rate
    (the unchanged TensorFlow body raised here: F17). -/
theorem select_empty [Inhabited S] (be : Backend) (isZero : S → Bool) (b : PBody S) :
    ∃ r, selectFrames be isZero [] b = some r ∧ r.data = [] ∧ r.conf = [] ∧ r.fps = b.fps := by
  have h : selectFrames be isZero [] b = some (mkBody be isZero b.fps (pickD [] b.data) (pickD [] b.conf) (some (pickD [] b.missing))) := by
    simp [selectFrames]
  obtain ⟨h1, h2, h3, _⟩ := select_exact be isZero [] b _ h
  exact ⟨_, h, by simpa using h1, by simpa using h2, h3⟩

/-- Stepping by `k ≥ 1` returns frames `0, k, 2k, …` (all of them below the frame count) and divides the frame rate by `k`. -/
theorem step_exact [Inhabited S] (be : Backend) (sc : Scalar S) (isZero : S → Bool) (k : Nat) (b r : PBody S) (h : sliceStep be sc isZero k b = some r) :
    0 < k ∧ r.fps = sc.div b.fps (sc.ofNat k) ∧
    r.data = (List.range ((b.data.length + k - 1) / k)).map (fun j => b.data.getD (j * k) default) ∧
    r.conf = (List.range ((b.conf.length + k - 1) / k)).map (fun j => b.conf.getD (j * k) default) ∧
    ∀ j < (b.data.length + k - 1) / k, j * k < b.data.length := by
  unfold sliceStep at h
  split at h
  · cases h
  · rename_i hk
    simp only [Option.some.injEq] at h
    subst h
    have hk0 : 0 < k := Nat.pos_of_ne_zero hk
    refine ⟨hk0, ?_, ?_, ?_, ?_⟩
    · cases be <;> rfl
    · cases be <;> rfl
    · cases be <;> rfl
    · intro j hj
      have : j < (b.data.length + k - 1) / k := hj
      rw [Nat.lt_div_iff_mul_lt hk0] at this
      omega

/-! ### dropout, for every draw -/

theorem kept_pairwise (n : Nat) (dropped : List Nat) : (dropoutKept n dropped).Pairwise (· < ·) :=
  List.Pairwise.filter _ List.pairwise_lt_range

/-- The kept indexes are strictly increasing and within range, and none of them was dropped. -/
theorem dropout_kept (n : Nat) (dropped : List Nat) :
    (dropoutKept n dropped).Pairwise (· < ·) ∧ (∀ i ∈ dropoutKept n dropped, i < n ∧ i ∉ dropped) ∧
    (∀ i, i < n → i ∉ dropped → i ∈ dropoutKept n dropped) := by
  refine ⟨kept_pairwise n dropped, ?_, ?_⟩
  · intro i hi
    simp only [dropoutKept, List.mem_filter, List.mem_range, Bool.not_eq_true', List.contains_eq_mem, decide_eq_false_iff_not] at hi
    exact hi
  · intro i hi hd
    simp only [dropoutKept, List.mem_filter, List.mem_range, Bool.not_eq_true', List.contains_eq_mem, decide_eq_false_iff_not]
    exact ⟨hi, hd⟩

/-- A dropout fraction of 0 drops nothing. -/
theorem dropout_zero (n : Nat) : dropoutKept n [] = List.range n := by
  simp [dropoutKept]

/-- The number of kept frames: `n` minus the number of distinct in-range dropped frames. -/
theorem dropout_length (n : Nat) (dropped : List Nat) (hnd : dropped.Nodup) (hr : ∀ i ∈ dropped, i < n) :
    (dropoutKept n dropped).length + dropped.length = n := by
  induction n generalizing dropped with
  | zero =>
    have : dropped = [] := by
      cases dropped with
      | nil => rfl
      | cons x xs => exact absurd (hr x (by simp)) (by omega)
    simp [this, dropoutKept]
  | succ n ih =>
    simp only [dropoutKept, List.range_succ, List.filter_append, List.length_append, List.filter_cons, List.filter_nil]
    by_cases hn : n ∈ dropped
    · have hlen := ih (dropped.erase n) (hnd.erase n) (by
        intro i hi
        have hmem := List.mem_of_mem_erase hi
        have hne : i ≠ n := fun h => by subst h; exact (List.Nodup.not_mem_erase hnd) hi
        have := hr i hmem; omega)
      have hcont : dropped.contains n = true := by simpa using hn
      simp only [hcont, Bool.not_true, Bool.false_eq_true, if_false, List.length_nil, Nat.add_zero]
      have hfilt : (List.range n).filter (fun i => !dropped.contains i) = (List.range n).filter (fun i => !(dropped.erase n).contains i) := by
        apply List.filter_congr
        intro i hi
        have hi' : i < n := List.mem_range.mp hi
        have : i ≠ n := by omega
        simp [List.mem_erase_of_ne this]
      rw [hfilt]
      have hel : (dropped.erase n).length = dropped.length - 1 := List.length_erase_of_mem hn
      have hpos : 0 < dropped.length := List.length_pos_of_mem hn
      simp only [dropoutKept] at hlen
      omega
    · have hcont : dropped.contains n = false := by simpa using hn
      simp only [hcont, Bool.not_false, if_true, List.length_cons, List.length_nil]
      have hlen := ih dropped hnd (by
        intro i hi
        have := hr i hi
        have hne : i ≠ n := fun h => by subst h; exact hn hi
        omega)
      simp only [dropoutKept] at hlen
      omega

/-- "Drops about that fraction": with `p = num/den ≤ cap`, the number dropped is `⌊n·p⌋`, i.e. within one frame of `n·p`. -/
theorem dropout_count (n num den : Nat) (hden : 0 < den) (kCap : Nat) (hcap : n * num / den ≤ kCap) :
    let k := dropCount (n * num / den) kCap
    k * den ≤ n * num ∧ n * num < (k + 1) * den := by
  intro k
  have hk : k = n * num / den := by simp [k, dropCount, Nat.min_eq_left hcap]
  rw [hk]
  exact ⟨Nat.div_mul_le_self _ _, by have := Nat.lt_mul_div_succ (n * num) hden; rw [Nat.mul_comm den] at this; exact this⟩

/-- Dropout always keeps at least one frame of a non-empty pose (the cap `int(n · 0.99)` is below `n`). -/
theorem dropout_keeps_one (n : Nat) (dropped : List Nat) (hnd : dropped.Nodup) (hr : ∀ i ∈ dropped, i < n) (kReq kCap : Nat)
    (hk : dropped.length = dropCount kReq kCap) (hcap : kCap < n) : dropoutKept n dropped ≠ [] := by
  have hlen := dropout_length n dropped hnd hr
  intro hnil
  rw [hnil] at hlen
  simp only [List.length_nil, Nat.zero_add] at hlen
  have : dropCount kReq kCap ≤ kCap := Nat.min_le_right _ _
  omega

/-! ### TensorFlow variant -/

/-- For every shuffle (a duplicate-free list of frame indexes below `n`): the kept indexes are strictly increasing, within range, and exactly `min m n'` many. -/
theorem tf_dropout_kept (n m : Nat) (shuffle : List Nat) (hnd : shuffle.Nodup) (hr : ∀ i ∈ shuffle, i < n) :
    (tfDropoutKept n m shuffle).Pairwise (· < ·) ∧ (∀ i ∈ tfDropoutKept n m shuffle, i < n) ∧ (tfDropoutKept n m shuffle).length = min m shuffle.length := by
  have hperm : (tfDropoutKept n m shuffle).Perm (shuffle.take m) := List.mergeSort_perm _ _
  have hsorted : (tfDropoutKept n m shuffle).Pairwise (· ≤ ·) := by
    have := List.pairwise_mergeSort (le := fun (a b : Nat) => decide (a ≤ b)) (by intro a b c; simp; omega) (by intro a b; simp; omega) (shuffle.take m)
    simpa [tfDropoutKept] using this
  have hnd' : (tfDropoutKept n m shuffle).Nodup := hperm.nodup_iff.mpr (List.Nodup.sublist (List.take_sublist _ _) hnd)
  refine ⟨?_, ?_, ?_⟩
  · -- sorted + no duplicates ⇒ strictly increasing
    have := List.Pairwise.and hsorted hnd'
    exact this.imp (fun ⟨h1, h2⟩ => Nat.lt_of_le_of_ne h1 h2)
  · intro i hi
    exact hr i (List.mem_of_mem_take (hperm.mem_iff.mp hi))
  · rw [hperm.length_eq, List.length_take]

theorem tf_dropout_keeps_one (n m : Nat) (shuffle : List Nat) (hm : 1 ≤ m) (hs : shuffle.length = n) (hn : 1 ≤ n) : tfDropoutKept n m shuffle ≠ [] := by
  intro h
  have : (tfDropoutKept n m shuffle).length = min m shuffle.length := by
    unfold tfDropoutKept; rw [List.length_mergeSort, List.length_take]
  rw [h] at this
  simp at this
  omega

/-! non-vacuity -/
example : dropoutKept 6 [4, 1] = [0, 2, 3, 5] := by decide
example : [4, 1, 5, 0, 2, 3].Nodup ∧ ∀ i ∈ [4, 1, 5, 0, 2, 3], i < 6 := by decide          -- the hypotheses of `tf_dropout_kept` are satisfiable

/-! ### `body[:]` is the identity selection; how many frames a step keeps -/

/-- `body[:]` / `body[::1]` names every frame, in order: the unbounded slice with step 1 is the identity selection -/
theorem slice_all_is_identity (n : Nat) : pySliceIndexes none none 1 n = List.range n := by
  rw [slice_unbounded_is_step]
  simp

/-- the number of frames stepping by `k ≥ 1` keeps is `⌈n / k⌉` -/
theorem slice_step_count (k n : Nat) : (pySliceIndexes none none k n).length = (n + k - 1) / k := by
  rw [slice_unbounded_is_step]; simp

example : pySliceIndexes none none 1 5 = [0, 1, 2, 3, 4] := by decide
example : pySliceIndexes none none 2 5 = [0, 2, 4] := by decide
end PoseVerif.Props.C16
