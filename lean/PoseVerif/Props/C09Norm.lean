import PoseVerif.Props.C09
import PoseVerif.Proofs.NormLift
/-!
# C09, continued — the two-point and the distribution normaliser do not look under the mask either

`Pose.normalize` and `Pose.normalize_distribution` compute their statistics from masked reductions (`cellVals`: `none` where a coordinate is masked) and then
apply a coordinate-wise map; both therefore send bodies that differ only under the mask to bodies that differ only under the mask, with the same statistics.
Any scalar type, no law of arithmetic.
-/
namespace PoseVerif.Props.C09Norm
open PoseVerif PoseVerif.Props.C09
variable {S : Type}

/-- the masked column of one coordinate of one point is the same for related bodies -/
theorem cellVals_eq [Inhabited S] {isZero : S → Bool} {d₁ d₂ : A4 S} {c : A3 S} (hv : V3 isZero d₁ d₂ c) (fps : S) (n dd : Nat) :
    cellVals (mkC isZero fps d₁ c) n dd = cellVals (mkC isZero fps d₂ c) n dd := by
  unfold cellVals
  simp only [mkC_data, mkC_missing, deriveMissing_eq]
  refine F3.flatMap_zip_eq hv _ _ _ _ ?_
  intro fr₁ fr₂ cf h2
  refine F3.map_zip_eq h2 _ _ _ _ ?_
  intro pe₁ pe₂ cp h3
  simp only []
  have hm : List.zipWith (kpt isZero) pe₁ cp = List.zipWith (kpt isZero) pe₂ cp := F3.zipWith_eq h3 _ _ fun _ _ _ h4 => h4.kpt
  rw [hm]
  have hl : pe₂.length = cp.length := by rw [← h3.length_ab, h3.length_ac]
  have hg := getD_zipWith' (kpt isZero) pe₂ cp hl n [] default
  have h0 : kpt isZero [] default = [] := rfl
  rw [h0] at hg
  rw [hg]
  have hp := F3.getD h3 n [] [] default ⟨rfl, fun _ => rfl⟩
  rw [← hp.kpt]
  have := PtEq.obs hp dd
  rw [← hp.kpt] at this
  exact this

/-- **`normalize`**: related bodies give the same centre and mean distance and related results (or fail together) -/
theorem normalize_ni [Inhabited S] (sc : Scalar S) {isZero : S → Bool} (p1 p2 : Nat) (sf : S) {b₁ b₂ : PBody S} (h : VisEq isZero b₁ b₂) :
    OptRel (fun r₁ r₂ => VisEq isZero r₁.1 r₂.1 ∧ r₁.2 = r₂.2) (normalizeBody sc isZero p1 p2 sf b₁) (normalizeBody sc isZero p1 p2 sf b₂) := by
  cases h with
  | mk fps d₁ d₂ c hv =>
    unfold normalizeBody
    have hmid : ∀ d, midVals sc (mkC isZero fps d₁ c) p1 p2 d = midVals sc (mkC isZero fps d₂ c) p1 p2 d := by
      intro d; unfold midVals; rw [cellVals_eq hv, cellVals_eq hv]
    have hdist : ∀ D, distVals sc (mkC isZero fps d₁ c) p1 p2 D = distVals sc (mkC isZero fps d₂ c) p1 p2 D := by
      intro D; unfold distVals; simp only [cellVals_eq hv]
    simp only [hv.numDims fps, hmid, hdist]
    generalize numDimsBody (mkC isZero fps d₂ c) = D
    generalize List.mapM (fun d => meanOpt sc (midVals sc (mkC isZero fps d₂ c) p1 p2 d)) (List.range D) = M1
    generalize meanOpt sc (distVals sc (mkC isZero fps d₂ c) p1 p2 D) = M2
    cases M1 with
    | none => simp [OptRel]
    | some center =>
      cases M2 with
      | none => simp [OptRel]
      | some md =>
        simp only [Option.bind_eq_bind, Option.bind_some, OptRel, and_true, mkC_fps, mkC_data, mkC_conf, mkC_missing]
        have e : ∀ d : A4 S, deriveMissing isZero d c =
            deriveMissing isZero (d.map (List.map (List.map (normalizePoint sc center (sc.div sf md))))) c :=
          fun d => (derive_map3 isZero _ (fun pt => by simp [normalizePoint]) d c).symm
        rw [mkBody_mkC _ _ _ _ _ _ (e d₁), mkBody_mkC _ _ _ _ _ _ (e d₂)]
        exact VisEq.mk _ _ _ _ (hv.map3 _ fun p q hpq => by simp [normalizePoint, hpq])

theorem F3.mapIdx {α β γ α' β' : Type} {R : α → β → γ → Prop} {R' : α' → β' → γ → Prop} {a : List α} {b : List β} {c : List γ} (h : F3 R a b c)
    (f : Nat → α → α') (g : Nat → β → β') (hr : ∀ i x y z, R x y z → R' (f i x) (g i y) z) : F3 R' (a.mapIdx f) (b.mapIdx g) c := by
  induction h generalizing f g with
  | nil => exact F3.nil
  | cons hxyz _ ih =>
    simp only [List.mapIdx_cons]
    exact F3.cons (hr 0 _ _ _ hxyz) (ih _ _ fun i x y z hxyz' => hr (i + 1) x y z hxyz')

theorem zipWith_kpt_mapIdx (isZero : S → Bool) (F : Nat → List S → List S) (hF : ∀ i pt, (F i pt).length = pt.length) (pe : List (List S)) (cp : List S) :
    List.zipWith (kpt isZero) (pe.mapIdx F) cp = List.zipWith (kpt isZero) pe cp := by
  induction pe generalizing F cp with
  | nil => simp
  | cons pt rest ih =>
    cases cp with
    | nil => simp
    | cons c cs =>
      simp only [List.mapIdx_cons, List.zipWith_cons_cons]
      rw [ih (fun i => F (i + 1)) (fun i pt => hF (i + 1) pt) cs, kpt_eq_replicate, kpt_eq_replicate, hF]

/-- the derived flags do not change under a point-wise, index-aware, length-preserving transform -/
theorem derive_mapIdx (isZero : S → Bool) (F : Nat → List S → List S) (hF : ∀ i pt, (F i pt).length = pt.length) (d : A4 S) (c : A3 S) :
    deriveMissing isZero (d.map (List.map fun pe => pe.mapIdx F)) c = deriveMissing isZero d c := by
  simp only [deriveMissing_eq, List.zipWith_map_left]
  congr 1; funext fr cf
  congr 1; funext pe cp
  exact zipWith_kpt_mapIdx isZero F hF pe cp

theorem V3.mapIdx {isZero : S → Bool} {d₁ d₂ : A4 S} {c : A3 S} (h : V3 isZero d₁ d₂ c) (F : Nat → List S → List S)
    (hF : ∀ i (p q : List S), p.length = q.length → (F i p).length = (F i q).length) :
    V3 isZero (d₁.map (List.map fun pe => pe.mapIdx F)) (d₂.map (List.map fun pe => pe.mapIdx F)) c := by
  unfold V3 at *
  have := F3.map (R' := F3 (F3 (PtEq isZero))) h (List.map fun pe => pe.mapIdx F) (List.map fun pe => pe.mapIdx F) id ?_
  · simpa using this
  intro x y z h2
  have := F3.map (R' := F3 (PtEq isZero)) h2 (fun pe => pe.mapIdx F) (fun pe => pe.mapIdx F) id ?_
  · simpa using this
  intro pe₁ pe₂ cp h3
  exact F3.mapIdx h3 F F fun i p q cc h4 => ⟨hF i p q h4.1, fun hz => by rw [h4.2 hz]⟩

/-- **`normalize_distribution`**: related bodies give the same mean / deviation tables and related results -/
theorem normalizeDistribution_ni [Inhabited S] (sc : Scalar S) {isZero : S → Bool} (allPoints : Bool) {b₁ b₂ : PBody S} (h : VisEq isZero b₁ b₂) :
    VisEq isZero (normalizeDistribution sc isZero allPoints b₁).1 (normalizeDistribution sc isZero allPoints b₂).1 ∧
    (normalizeDistribution sc isZero allPoints b₁).2 = (normalizeDistribution sc isZero allPoints b₂).2 := by
  cases h with
  | mk fps d₁ d₂ c hv =>
    have hcol : ∀ n d, columnVals (mkC isZero fps d₁ c) allPoints n d = columnVals (mkC isZero fps d₂ c) allPoints n d := by
      intro n d
      unfold columnVals
      cases allPoints with
      | true => exact observedCoord_eq hv fps d fun _ => true
      | false => simp only [Bool.false_eq_true, if_false, cellVals_eq hv]
    have hN : numPoints (mkC isZero fps d₁ c) = numPoints (mkC isZero fps d₂ c) := rfl
    unfold normalizeDistribution
    simp only [hv.numDims fps, hN, hcol, mkC_fps, mkC_data, mkC_conf, mkC_missing, and_true]
    generalize numDimsBody (mkC isZero fps d₂ c) = D
    generalize numPoints (mkC isZero fps d₂ c) = N
    generalize hF : (fun (n : Nat) (pt : List S) => List.mapIdx (fun d x =>
        distMap sc ((((List.range N).map fun n => (List.range D).map fun d => meanOpt sc (columnVals (mkC isZero fps d₂ c) allPoints n d)).getD n []).getD d none)
          ((((List.range N).map fun n => (List.range D).map fun d => stdOpt sc (columnVals (mkC isZero fps d₂ c) allPoints n d)).getD n []).getD d none) x) pt) = F
    have hlen : ∀ i pt, (F i pt).length = pt.length := by intro i pt; rw [← hF]; simp
    have e : ∀ d : A4 S, deriveMissing isZero d c = deriveMissing isZero (d.map (List.map fun pe => pe.mapIdx F)) c :=
      fun d => (derive_mapIdx isZero F hlen d c).symm
    rw [mkBody_mkC _ _ _ _ _ _ (e d₁), mkBody_mkC _ _ _ _ _ _ (e d₂)]
    exact VisEq.mk _ _ _ _ (V3.mapIdx hv F fun i p q hpq => by rw [hlen, hlen, hpq])

/-! ### programs that also normalise -/

inductive NOp (S : Type) where
  | base (op : BOp S)
  | normalize (p1 p2 : Nat) (scale : S)
  | normalizeDistribution (allPoints : Bool)

def NOp.apply (be : Backend) (sc : Scalar S) (isZero : S → Bool) [Inhabited S] : NOp S → PBody S → Option (PBody S)
  | .base op, b => op.apply be sc isZero b
  | .normalize p1 p2 sf, b => (normalizeBody sc isZero p1 p2 sf b).map (·.1)
  | .normalizeDistribution allPoints, b => some (PoseVerif.normalizeDistribution sc isZero allPoints b).1

def runNOps (be : Backend) (sc : Scalar S) (isZero : S → Bool) [Inhabited S] : List (NOp S) → PBody S → Option (PBody S)
  | [], b => some b
  | op :: ops, b => (op.apply be sc isZero b).bind (runNOps be sc isZero ops)

theorem napply_ni (be : Backend) (sc : Scalar S) {isZero : S → Bool} [Inhabited S] (op : NOp S) {b₁ b₂ : PBody S} (h : Sim isZero b₁ b₂) :
    OptRel (Sim isZero) (op.apply be sc isZero b₁) (op.apply be sc isZero b₂) := by
  cases op with
  | base op => exact apply_ni be sc op h
  | normalize p1 p2 sf =>
    rcases h with rfl | h
    · exact OptRel.refl_sim _ _
    · have := normalize_ni sc p1 p2 sf h
      simp only [NOp.apply]
      cases h1 : normalizeBody sc isZero p1 p2 sf b₁ <;> cases h2 : normalizeBody sc isZero p1 p2 sf b₂ <;> rw [h1, h2] at this <;> simp_all [OptRel]
      exact Or.inr this.1
  | normalizeDistribution allPoints =>
    rcases h with rfl | h
    · exact OptRel.refl_sim _ _
    · exact Or.inr (normalizeDistribution_ni sc allPoints h).1

/-- **every program** over the nine structural / spatial operations and the two normalisers: the two runs fail together or end in bodies that show the same -/
theorem runN_ni (be : Backend) (sc : Scalar S) {isZero : S → Bool} [Inhabited S] (ops : List (NOp S)) {b₁ b₂ : PBody S} (h : Sim isZero b₁ b₂) :
    OptRel (Sim isZero) (runNOps be sc isZero ops b₁) (runNOps be sc isZero ops b₂) := by
  induction ops generalizing b₁ b₂ with
  | nil => exact h
  | cons op ops ih =>
    have h1 := napply_ni be sc op h
    simp only [runNOps]
    cases e1 : op.apply be sc isZero b₁ <;> cases e2 : op.apply be sc isZero b₂ <;> rw [e1, e2] at h1 <;> simp_all [OptRel]

end PoseVerif.Props.C09Norm
