import PoseVerif.Props.C01
/-!
# C09 (serialisation) — writing and reading back does not look under the mask

Stated on the codec's own (flat) bodies: `Pose.write` stores whatever is under the mask, so the two files differ — but a read derives the missing pattern from the
confidences alone, and what is visible of the two results is the same.
-/
namespace PoseVerif.Props.C09Ser
open PoseVerif

/-- what is visible of a decoded body: confidences, missing pattern, and the coordinates with the missing points' ones replaced by 0 -/
def flatView (b : Body) : List F32 × List Bool × List F32 :=
  (b.conf, b.missing, b.data.mapIdx fun i x => bif b.missing.getD (i / b.dims) false then 0 else x)

/-- two bodies that differ only in what is stored at points whose confidence is ±0 -/
structure FlatEq (b₁ b₂ : Body) : Prop where
  fps : b₁.fps = b₂.fps
  frames : b₁.frames = b₂.frames
  people : b₁.people = b₂.people
  points : b₁.points = b₂.points
  dims : b₁.dims = b₂.dims
  conf : b₁.conf = b₂.conf
  len : b₁.data.length = b₂.data.length
  data : ∀ i, F32.isZero (b₁.conf.getD (i / b₁.dims) 0) = false → b₁.data[i]? = b₂.data[i]?

/-- **serialisation does not look under the mask**: two poses with the same header whose bodies differ only at missing points are written to (different) files
    that read back to the same visible result — same header, frame rate, confidences, missing pattern and zero-filled coordinates -/
theorem serialise_ni (h : Header) (b₁ b₂ : Body) (hf₁ : b₁.Fits h) (hf₂ : b₂.Fits h) (he : FlatEq b₁ b₂) (f₁ f₂ : Bytes)
    (hw₁ : (Pose.mk h b₁).write? = some f₁) (hw₂ : (Pose.mk h b₂).write? = some f₂) :
    ∃ q₁ q₂, readFull f₁ = some q₁ ∧ readFull f₂ = some q₂ ∧ q₁.header = q₂.header ∧ q₁.body.fps = q₂.body.fps ∧ flatView q₁.body = flatView q₂.body := by
  obtain ⟨w₁, hfps₁, hr₁⟩ := C01.write_ok_decodes ⟨h, b₁⟩ hf₁ f₁ hw₁
  obtain ⟨w₂, hfps₂, hr₂⟩ := C01.write_ok_decodes ⟨h, b₂⟩ hf₂ f₂ hw₂
  have hw : w₁ = w₂ := by
    simp only [] at hfps₁ hfps₂
    rw [he.fps] at hfps₁
    rw [hfps₁] at hfps₂
    exact Option.some.inj hfps₂
  subst hw
  refine ⟨_, _, hr₁, hr₂, rfl, rfl, ?_⟩
  simp only [flatView, Pose.canon, Body.canon, he.conf, he.dims, Prod.mk.injEq, true_and]
  apply List.ext_getElem?
  intro i
  simp only [List.getElem?_mapIdx]
  -- the flag of entry i is the same expression on both sides; only the data differ, and only where the flag is set
  generalize hg : (b₂.conf.map F32.isZero).getD (i / b₂.dims) false = flag
  cases h1 : b₁.data[i]? with
  | none =>
    have : b₂.data[i]? = none := by
      have hlen := he.len
      rw [List.getElem?_eq_none_iff] at h1 ⊢; omega
    rw [this]
  | some x =>
    have hi : i < b₂.data.length := by
      have := (List.getElem?_eq_some_iff.mp h1).1
      have hlen := he.len; omega
    rw [List.getElem?_eq_getElem hi]
    simp only [Option.map_some, Option.some.injEq]
    cases flag with
    | true => rfl
    | false =>
      simp only [cond_false]
      -- the point is not flagged, so its confidence is not ±0 and the stored coordinates agree
      have hj : i / b₂.dims < b₂.conf.length := by
        have hdl := hf₂.data; have hcl := hf₂.conf
        rw [hcl]
        apply Nat.div_lt_of_lt_mul
        rw [Nat.mul_comm, ← hdl]; exact hi
      have hz : F32.isZero (b₂.conf.getD (i / b₂.dims) 0) = false := by
        rw [← hg]
        simp [List.getD_eq_getElem?_getD, List.getElem?_map, List.getElem?_eq_getElem hj]
      have hd := he.data i (by rw [he.conf, he.dims]; exact hz)
      rw [h1, List.getElem?_eq_getElem hi] at hd
      exact Option.some.inj hd
end PoseVerif.Props.C09Ser
