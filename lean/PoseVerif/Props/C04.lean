import PoseVerif.Proofs.Legacy
import PoseVerif.Props.C01
import PoseVerif.Props.C03
/-!
# C04 — files in the older v0.0 and v0.1 layouts decode to what their spec describes

`specFileV01` is the reference encoder written from `docs/specs/v0.1.md`. The v0.0 decoder is part of the model
(`rdBodyV00`, compared with the implementation on reference-encoded files by the correspondence check); the theorem about it here is
that window arguments do not reach it, and that it is reached exactly for version ±0. A reference-decode theorem for v0.0 is not proved (partial).
-/
namespace PoseVerif.Props.C04
open PoseVerif

/-- the file `docs/specs/v0.1.md` describes: header with the 0.1 version pattern; `u16` fps, `u16` frame-count field, `u16` people; blocks -/
def specFileV01 (p : Pose) (fps framesField : Nat) : Bytes :=
  specHeader p.header v01bits ++ specBodyV01 p.body fps framesField

/-- what a v0.1 read returns for that file: the header as stored (version 0.1), integer fps, mask from confidence -/
def decodedV01 (p : Pose) (fps : Nat) : Pose :=
  ⟨{ p.header with version := v01bits }, { p.body with fps := .int fps, missing := p.body.conf.map F32.isZero }⟩

/-- Every reference-encoded v0.1 file decodes to exactly the values stored in it — whatever its frame-count field says: the count is taken
    from the payload size, so recordings longer than 65 535 frames (field = frames mod 2^16, or anything else) are decoded in full. -/
theorem readV01_enc (p : Pose) (hf : p.body.Fits p.header) (hr : p.header.Rep) (fps ff : Nat) (hfps : fps < 65536) (hff : ff < 65536)
    (hpeople : p.body.people < 65536) (hp1 : 1 ≤ p.body.people) (hn1 : 1 ≤ p.body.points) :
    readFull (specFileV01 p fps ff) = some (decodedV01 p fps) := by
  have henc : encHeaderAny? { p.header with version := v01bits } = some (specHeader p.header v01bits) :=
    encHeaderAny?_of_rep _ (Header.Rep_version v01bits hr)
  have hh := Enc_rdHeaderRaw _ _ (specBodyV01 p.body fps ff) henc
  have hb := rdBodyV01_spec { p.header with version := v01bits } p.body (Body.Fits_version v01bits hf) fps ff hfps hff hpeople hp1 hn1
  have hbody : runBR (rdBody { p.header with version := v01bits } {}) (specFileV01 p fps ff) (specHeader p.header v01bits).length
      = some ({ p.body with fps := .int fps, missing := p.body.conf.map F32.isZero }, (specFileV01 p fps ff).length) := by
    simp only [rdBody, versionClass_v01bits]
    rw [runBR_drop _ (Rel_rdBodyV01 _ _) _ _ (by simp [specFileV01])]
    simp only [specFileV01, List.drop_left, hb, Option.map_some, List.length_append]
  have := rdPose_none_of (w := {}) hh hbody
  simp only [specFileV01] at this ⊢
  simp [readFull, this, decodedV01]

/-- …and the decoded pose is written as a v0.2 file that reads back to the same content
    (same header fields, coordinates, confidences, missing pattern; fps as the same number in float32, version 0.2). -/
theorem legacy_rewrite_v01 (p : Pose) (hf : p.body.Fits p.header) (hr : p.header.Rep) (fps : Nat) (hfps : fps < 65536)
    (hpeople : p.body.people < 65536) (hframes : p.body.frames < 4294967296) :
    ∃ b, (decodedV01 p fps).write? = some b ∧ readFull b = some ((decodedV01 p fps).canon (F32.ofSmallNat fps)) := by
  have hfit : (decodedV01 p fps).body.Fits (decodedV01 p fps).header := ⟨hf.points, hf.dims, hf.dimsPos, hf.data, hf.conf⟩
  have hw : (decodedV01 p fps).body.fps.toF32? = some (F32.ofSmallNat fps) := by
    simp only [decodedV01, Fps.toF32?]; rw [if_pos (by omega)]
  have hrep : (decodedV01 p fps).Rep := ⟨hr.width, hr.height, hr.depth, hr.ncomps, hr.comps, ⟨_, hw⟩, hframes, hpeople⟩
  obtain ⟨b, w, hb, hw', hread⟩ := C01.read_write _ hfit hrep
  rw [hw] at hw'; cases hw'
  exact ⟨b, hb, hread⟩

/-- A file declaring any other version is refused rather than guessed at — by either reader, with any window. -/
theorem other_version_refused (h : Header) (w : Window) (hv : versionClass h.version = .other) : rdBody h w = .fail := by
  simp [rdBody, hv]

/-- which versions are "other": not ±0 and not within the 3-decimal rounding band of 0.1 / 0.2 (examples: 0.3, 1.0, 0.15, NaN, +inf, −0.1, the smallest subnormal) -/
example : [0x3E99999A, 0x3F800000, 0x3E19999A, 0x7FC00000, 0x7F800000, 0xBDCCCCCD, 0x00000001].map versionClass = List.replicate 7 VersionClass.other := by decide
example : [0x3E4CCCCD, 0x3E4CCCCC, 0x3E4CCCCE].map versionClass = List.replicate 3 VersionClass.v02 ∧ [0x3DCCCCCD, 0x3DCCCCCE].map versionClass = List.replicate 2 VersionClass.v01
    ∧ [0, 0x80000000].map versionClass = List.replicate 2 VersionClass.v00 := by decide

/-- v0.0: the window arguments never reach the decoder (`**unused_kwargs`), so a "windowed" read is the full decode, from either source. -/
theorem v00_window_ignored (h : Header) (w : Window) (hv : versionClass h.version = .v00) : rdBody h w = rdBody h {} := by
  simp [rdBody, hv]

/-- v0.1 windows are slices (same statement as C03 for the two blocks), and a stream read returns what a byte-string read returns
    for every version (`C03.stream_eq_bytes` is not restricted to v0.2). -/
theorem v01_window_eq_slice (fps : Fps) (frames people points dims : Nat) (s e : Option Int) (f : Bytes) (off : Nat) (b : Body) (o : Nat)
    (hfull : runBR (rdBlocks fps frames people points dims none none) f off = some (b, o)) (hv : WinValid frames s e) :
    runBR (rdBlocks fps frames people points dims s e) f off = some (b.slice (winStart s) (winCount frames s e), o) :=
  rdBlocks_window fps frames people points dims s e f off b o hfull hv

theorem legacy_stream_eq_bytes (file : Bytes) (cache : Option CacheEntry) (w : Window) (p : Pose) (c : Option CacheEntry)
    (h : readBytes file cache w = some (p, c)) : ∃ s, readStream file cache w = some ((p, c), s) :=
  C03.stream_eq_bytes file cache w p c h

/-! non-vacuity: a 3-frame v0.1 file whose frame-count field says 7 -/
def sampleV01 : Pose :=
  { header := { version := 0, width := 1, height := 2, depth := 0, comps := [{ name := "c", format := "XC", points := ["p"], limbs := [], colors := [] }] },
    body := { fps := .int 0, frames := 3, people := 1, points := 1, dims := 1, data := [1, 2, 3], conf := [0, 0x3F800000, 0x80000000], missing := [] } }
example : (readFull (specFileV01 sampleV01 25 7)).map (fun q => (q.body.frames, q.body.fps, q.body.missing)) = some (3, Fps.int 25, [true, false, true]) := by decide +kernel

end PoseVerif.Props.C04
