import PoseVerif.Proofs.Legacy
import PoseVerif.Proofs.LegacyV00
import PoseVerif.Props.C01
import PoseVerif.Props.C03
/-!
# C04 — files in the older v0.0 and v0.1 layouts decode to what their spec describes

`specFileV01` / `specFileV00` are the reference encoders written from `docs/specs/v0.1.md` / `docs/specs/v0.0.md` (their bytes are compared with an
independent Python encoder by the correspondence check). Both decode theorems are stated for every header, every number of frames / people / points.
-/
namespace PoseVerif.Props.C04
open PoseVerif

/-- what a v0.1 read returns for that file: the header as stored (version 0.1), integer fps, mask from confidence -/
def decodedV01 (p : Pose) (fps : Nat) : Pose :=
  ⟨{ p.header with version := v01bits }, { p.body with fps := .int fps, missing := p.body.conf.map F32.isZero }⟩

/-- Every reference-encoded v0.1 file decodes to exactly the values stored in it — whatever its frame-count field says: the count is taken
    from the payload size, so recordings longer than 65 535 frames (field = frames mod 2^16, or anything else) are decoded in full. -/
theorem readV01_enc (p : Pose) (hf : p.body.Fits p.header) (hr : p.header.Rep) (fps ff : Nat) (hfps : fps < 65536) (hff : ff < 65536)
    (hpeople : p.body.people < 65536) (hp1 : 1 ≤ p.body.people) (hn1 : 1 ≤ p.body.points) :
    readFull (specFileV01 p fps ff) = some (decodedV01 p fps) := by
  have henc : encHeaderAny? { p.header with version := v01bits } = some (specHeader p.header v01bits) :=
    encHeaderAny?_of_rep _ (Header.Rep_version v01bits hr)
  have hh := Enc_rdHeaderRaw _ _ (specBodyV01 p.body fps ff) henc
  have hb := rdBodyV01_spec { p.header with version := v01bits } p.body (Body.Fits_version v01bits hf) fps ff hfps hff hpeople hp1 hn1
  have hbody : runBR (rdBody { p.header with version := v01bits } {}) (specFileV01 p fps ff) (specHeader p.header v01bits).length
      = some ({ p.body with fps := .int fps, missing := p.body.conf.map F32.isZero }, (specFileV01 p fps ff).length) := by
    simp only [rdBody, versionClass_v01bits]
    rw [runBR_drop _ (Rel_rdBodyV01 _ _) _ _ (by simp [specFileV01])]
    simp only [specFileV01, List.drop_left, hb, Option.map_some, List.length_append]
  have := rdPose_none_of (w := {}) hh hbody
  simp only [specFileV01] at this ⊢
  simp [readFull, this, decodedV01]

/-- …and the decoded pose is written as a v0.2 file that reads back to the same content
    (same header fields, coordinates, confidences, missing pattern; fps as the same number in float32, version 0.2). -/
theorem legacy_rewrite_v01 (p : Pose) (hf : p.body.Fits p.header) (hr : p.header.Rep) (fps : Nat) (hfps : fps < 65536)
    (hpeople : p.body.people < 65536) (hframes : p.body.frames < 4294967296) :
    ∃ b, (decodedV01 p fps).write? = some b ∧ readFull b = some ((decodedV01 p fps).canon (F32.ofSmallNat fps)) := by
  have hfit : (decodedV01 p fps).body.Fits (decodedV01 p fps).header := ⟨hf.points, hf.dims, hf.dimsPos, hf.data, hf.conf⟩
  have hw : (decodedV01 p fps).body.fps.toF32? = some (F32.ofSmallNat fps) := by
    simp only [decodedV01, Fps.toF32?]; rw [if_pos (by omega)]
  have hrep : (decodedV01 p fps).Rep := ⟨hr.width, hr.height, hr.depth, hr.ncomps, hr.comps, ⟨_, hw⟩, hframes, hpeople⟩
  obtain ⟨b, w, hb, hw', hread⟩ := C01.read_write _ hfit hrep
  rw [hw] at hw'; cases hw'
  exact ⟨b, hb, hread⟩

/-- A file declaring any other version is refused rather than guessed at — by either reader, with any window. -/
theorem other_version_refused (h : Header) (w : Window) (hv : versionClass h.version = .other) : rdBody h w = .fail := by
  simp [rdBody, hv]

/-- which versions are "other": not ±0 and not within the 3-decimal rounding band of 0.1 / 0.2 (examples: 0.3, 1.0, 0.15, NaN, +inf, −0.1, the smallest subnormal) -/
example : [0x3E99999A, 0x3F800000, 0x3E19999A, 0x7FC00000, 0x7F800000, 0xBDCCCCCD, 0x00000001].map versionClass = List.replicate 7 VersionClass.other := by decide
example : [0x3E4CCCCD, 0x3E4CCCCC, 0x3E4CCCCE].map versionClass = List.replicate 3 VersionClass.v02 ∧ [0x3DCCCCCD, 0x3DCCCCCE].map versionClass = List.replicate 2 VersionClass.v01
    ∧ [0, 0x80000000].map versionClass = List.replicate 2 VersionClass.v00 := by decide

/-- v0.0: the window arguments never reach the decoder (`**unused_kwargs`), so a "windowed" read is the full decode, from either source. -/
theorem v00_window_ignored (h : Header) (w : Window) (hv : versionClass h.version = .v00) : rdBody h w = rdBody h {} := by
  simp [rdBody, hv]

/-- v0.1 windows are slices (same statement as C03 for the two blocks), and a stream read returns what a byte-string read returns
    for every version (`C03.stream_eq_bytes` is not restricted to v0.2). -/
theorem v01_window_eq_slice (fps : Fps) (frames people points dims : Nat) (s e : Option Int) (f : Bytes) (off : Nat) (b : Body) (o : Nat)
    (hfull : runBR (rdBlocks fps frames people points dims none none) f off = some (b, o)) (hv : WinValid frames s e) :
    runBR (rdBlocks fps frames people points dims s e) f off = some (b.slice (winStart s) (winCount frames s e), o) :=
  rdBlocks_window fps frames people points dims s e f off b o hfull hv

theorem legacy_stream_eq_bytes (file : Bytes) (cache : Option CacheEntry) (w : Window) (p : Pose) (c : Option CacheEntry)
    (h : readBytes file cache w = some (p, c)) : ∃ s, readStream file cache w = some ((p, c), s) :=
  C03.stream_eq_bytes file cache w p c h

/-! ### v0.0 -/

/-- **Every reference-encoded v0.0 file decodes to exactly the values stored in it**: per frame the FIRST listed person (whatever its id), all-zero — hence
    missing — points for a frame that lists nobody, coordinates = all letters of the format but the last, confidence = the last. -/
theorem readV00_enc (h : Header) (hr : h.Rep) (dims fps : Nat) (frames : List (List PersonV00)) (hfps : fps < 65536) (hnf : frames.length < 65536) (hf1 : frames ≠ [])
    (hd1 : 1 ≤ dims) (hne : h.comps ≠ []) (hfmt : ∀ c ∈ h.comps, c.format.length = dims + 1)
    (hpeople : ∀ ps ∈ frames, ps.length < 65536) (hfit : ∀ ps ∈ frames, ∀ p ∈ ps, p.Fits h.comps) :
    readFull (specFileV00 h fps frames) = some ⟨{ h with version := 0 }, decodedBodyV00 h dims fps frames⟩ := by
  have henc : encHeaderAny? { h with version := 0 } = some (specHeader h 0) := encHeaderAny?_of_rep _ (Header.Rep_version 0 hr)
  have hh := Enc_rdHeaderRaw _ _ (specBodyV00 fps frames) henc
  have hb := rdBodyV00_spec { h with version := 0 } dims fps frames hfps hnf hf1 hd1 hne hfmt hpeople hfit
  have hbody : runBR (rdBody { h with version := 0 } {}) (specFileV00 h fps frames) (specHeader h 0).length
      = some (decodedBodyV00 h dims fps frames, (specFileV00 h fps frames).length) := by
    simp only [rdBody, versionClass_zero]
    rw [runBR_drop _ (Rel_rdBodyV00 _) _ _ (by simp [specFileV00])]
    simp only [specFileV00, List.drop_left, hb, Option.map_some, List.length_append]
    rfl
  have := rdPose_none_of (w := {}) hh hbody
  simp only [specFileV00] at this ⊢
  simp [readFull, this]

theorem decodedBodyV00_fits (h : Header) (dims fps : Nat) (frames : List (List PersonV00)) (hd1 : 1 ≤ dims) (hne : h.comps ≠ [])
    (hfmt : ∀ c ∈ h.comps, c.format.length = dims + 1) (hfit : ∀ ps ∈ frames, ∀ p ∈ ps, p.Fits h.comps) :
    (decodedBodyV00 h dims fps frames).Fits { h with version := 0 } := by
  have hw : ∀ c ∈ h.comps, c.format.length - 1 = dims := fun c hc => by rw [hfmt c hc]; omega
  refine ⟨rfl, numDims?_of_uniform { h with version := 0 } dims hne hfmt, hd1, ?_, ?_⟩
  · simp only [decodedBodyV00, List.map_map]
    rw [flatten_length_of_const (h.totalPoints * dims)]
    · simp [Nat.mul_assoc]
    · intro x hx
      obtain ⟨ps, hps, rfl⟩ := List.mem_map.mp hx
      exact (decodeFrameV00_lengths h.comps dims ps (hfit ps hps) hw).1
  · simp only [decodedBodyV00, List.map_map]
    rw [flatten_length_of_const h.totalPoints]
    · simp
    · intro x hx
      obtain ⟨ps, hps, rfl⟩ := List.mem_map.mp hx
      exact (decodeFrameV00_lengths h.comps dims ps (hfit ps hps) hw).2

/-- …and the decoded v0.0 pose is written as a v0.2 file that reads back to the same header fields, coordinates and confidences (fps as the same number in
    float32, version 0.2; the missing pattern is then v0.2's `confidence == 0`, which differs from v0.0's `confidence ≤ 0` only for negative / NaN confidences). -/
theorem legacy_rewrite_v00 (h : Header) (hr : h.Rep) (dims fps : Nat) (frames : List (List PersonV00)) (hfps : fps < 65536) (hnf : frames.length < 65536)
    (hd1 : 1 ≤ dims) (hne : h.comps ≠ []) (hfmt : ∀ c ∈ h.comps, c.format.length = dims + 1) (hfit : ∀ ps ∈ frames, ∀ p ∈ ps, p.Fits h.comps) :
    ∃ b, (Pose.mk { h with version := 0 } (decodedBodyV00 h dims fps frames)).write? = some b ∧
      readFull b = some ((Pose.mk { h with version := 0 } (decodedBodyV00 h dims fps frames)).canon (F32.ofSmallNat fps)) := by
  have hfitB := decodedBodyV00_fits h dims fps frames hd1 hne hfmt hfit
  have hw : (decodedBodyV00 h dims fps frames).fps.toF32? = some (F32.ofSmallNat fps) := by
    simp only [decodedBodyV00, Fps.toF32?]; rw [if_pos (by omega)]
  have hrep : (Pose.mk { h with version := 0 } (decodedBodyV00 h dims fps frames)).Rep :=
    ⟨hr.width, hr.height, hr.depth, hr.ncomps, hr.comps, ⟨_, hw⟩, by simp only [decodedBodyV00]; omega, by simp [decodedBodyV00]⟩
  obtain ⟨b, w, hb, hw', hread⟩ := C01.read_write _ hfitB hrep
  rw [hw] at hw'; cases hw'
  exact ⟨b, hb, hread⟩

/-! non-vacuity: two frames, the first lists two people (ids 7 and 3 — the first LISTED one is kept), the second nobody -/
def sampleHeaderV00 : Header :=
  { version := 0, width := 1, height := 2, depth := 0, comps := [{ name := "c", format := "XYC", points := ["p", "q"], limbs := [], colors := [] }] }
def sampleFramesV00 : List (List PersonV00) :=
  [[⟨7, [[1, 2, 0x3F800000, 3, 4, 0]]⟩, ⟨3, [[9, 9, 9, 9, 9, 9]]⟩], []]
instance : DecidableEq PersonV00 := fun a b => by
  cases a; cases b; simp only [PersonV00.mk.injEq]; exact inferInstance
example : (readFull (specFileV00 sampleHeaderV00 30 sampleFramesV00)).map (fun q => (q.body.frames, q.body.people, q.body.fps, q.body.missing)) =
    some (2, 1, Fps.int 30, [false, true, true, true]) := by decide +kernel
example : (readFull (specFileV00 sampleHeaderV00 30 sampleFramesV00)).map (fun q => (q.body.data, q.body.conf)) =
    some ([1, 2, 3, 4, 0, 0, 0, 0], [0x3F800000, 0, 0, 0]) := by decide +kernel
instance (comps : List Comp) (p : PersonV00) : Decidable (p.Fits comps) := by unfold PersonV00.Fits; exact inferInstance
example : ∀ ps ∈ sampleFramesV00, ∀ p ∈ ps, p.Fits sampleHeaderV00.comps := by decide

/-! non-vacuity: a 3-frame v0.1 file whose frame-count field says 7 -/
def sampleV01 : Pose :=
  { header := { version := 0, width := 1, height := 2, depth := 0, comps := [{ name := "c", format := "XC", points := ["p"], limbs := [], colors := [] }] },
    body := { fps := .int 0, frames := 3, people := 1, points := 1, dims := 1, data := [1, 2, 3], conf := [0, 0x3F800000, 0x80000000], missing := [] } }
example : (readFull (specFileV01 sampleV01 25 7)).map (fun q => (q.body.frames, q.body.fps, q.body.missing)) = some (3, Fps.int 25, [true, false, true]) := by decide +kernel

end PoseVerif.Props.C04
