import PoseVerif.Proofs.C19Lemmas
/-!
# C19 — OpenPose import puts every keypoint where it belongs
-/
namespace PoseVerif.Props.C19
open PoseVerif
variable {S : Type}
/-- keypoint `k` of a component is `(numbers[3k], numbers[3k+1], numbers[3k+2])` -/
theorem triplesOf_get [Inhabited S] : ∀ (nums : List S) (k : Nat), 3 * k + 2 < nums.length →
    (triplesOf nums)[k]? = some (nums.getD (3 * k) default, nums.getD (3 * k + 1) default, nums.getD (3 * k + 2) default)
  | x :: y :: c :: rest, 0, _ => by simp [triplesOf]
  | x :: y :: c :: rest, k + 1, h => by
    have ih := triplesOf_get rest k (by simp at h; omega)
    simp only [triplesOf, List.getElem?_cons_succ, ih]
    have e0 : 3 * (k + 1) = 3 * k + 3 := by omega
    simp [e0]
  | [], k, h => by simp at h
  | [_], k, h => by simp at h
  | [_, _], k, h => by simp at h; omega

/-- **where a keypoint belongs**: position `j` of header component `c` is header point (sum of the sizes of the components before `c`) + `j` -/
theorem locate_offset : ∀ (sizes : List Nat) (c j : Nat) (hc : c < sizes.length), j < sizes[c] → locate sizes ((sizes.take c).sum + j) = some (c, j)
  | n :: ns, 0, j, _, hj => by simp only [List.getElem_cons_zero] at hj; simp [locate, hj]
  | n :: ns, c + 1, j, hc, hj => by
    have ih := locate_offset ns c j (by simpa using hc) (by simpa using hj)
    have e : ((n :: ns).take (c + 1)).sum + j = n + ((ns.take c).sum + j) := by simp only [List.take_succ_cons, List.sum_cons]; omega
    rw [e]
    simp only [locate]
    rw [if_neg (by omega), show n + ((ns.take c).sum + j) - n = (ns.take c).sum + j by omega, ih]
    rfl

/-- the confidence / coordinates of cell `(f, p, k)` of a successfully loaded body are the `cell` lookup -/
theorem loaded_meta (sc : Scalar S) (isZero : S → Bool) (sizes : List Nat) (frames : List (OPFrame S)) (fps : S) (nf : Option Nat) (b : PBody S)
    (h : loadOpenpose sc isZero sizes frames fps nf = some b) :
    b.fps = fps ∧ (∃ maxId, maxL (frames.map (·.id)) = some maxId ∧ numFrames b = nf.getD (maxId + 1)) ∧ (∀ fr ∈ frames, fr.id < numFrames b) := by
  unfold loadOpenpose at h
  simp only [Option.bind_eq_bind, Option.bind_eq_some_iff] at h
  obtain ⟨maxId, hmax, people, hpeople, h⟩ := h
  split at h
  · cases h
  · rename_i hge
    split at h
    · cases h
    · simp only [Option.some.injEq] at h
      subst h
      refine ⟨rfl, ⟨maxId, hmax, by simp [numFrames, mkBody]⟩, ?_⟩
      intro fr hfr
      simp only [List.any_eq_true, decide_eq_true_eq, not_exists, not_and, Nat.not_le] at hge
      simpa [numFrames, mkBody] using hge fr hfr

/-- The frame number is the digit group before `_keypoints.json` (prefix without digits; the general case is compared with Python's `re` by the check). -/
theorem frame_id_conforming (pre digits : String) (hpre : ∀ c ∈ pre.toList, isDigit c = false) (hd : digits.toList ≠ []) (hall : ∀ c ∈ digits.toList, isDigit c = true) :
    frameId (pre ++ digits ++ "_keypoints.json") = some (digitsToNat digits.toList) := by
  unfold frameId
  have hl : (pre ++ digits ++ "_keypoints.json").toList = pre.toList ++ digits.toList ++ "_keypoints.json".toList := by simp
  rw [hl]
  have := findAll_conforming pre.toList digits.toList hpre hd hall ((pre ++ digits ++ "_keypoints.json").length + 1)
    (by simp only [String.length_append, String.length_toList]; omega) true (fun _ => rfl)
  rw [this]
  rfl

/-- **the frame number is the last digit group before `_keypoints.json`**, whatever precedes it: other numbers, other digit groups, even earlier
    `…_keypoints.json` fragments — provided the character in front of the group is not a digit (else the group would be longer) and no complete
    `_keypoints?json` literal ends exactly there (`re.findall` would have consumed that character; see the example below). -/
theorem frame_id_last_group (pre digits : String) (hlast : ∀ x, pre.toList.getLast? = some x → isDigit x = false)
    (hno : NoEnd pre.toList)
    (hd : digits.toList ≠ []) (hall : ∀ c ∈ digits.toList, isDigit c = true) :
    frameId (pre ++ digits ++ "_keypoints.json") = some (digitsToNat digits.toList) := by
  unfold frameId
  have hl : (pre ++ digits ++ "_keypoints.json").toList = pre.toList ++ digits.toList ++ "_keypoints.json".toList := by simp
  have hk : "_keypoints.json".toList = kTail := rfl
  rw [hl, hk, List.append_assoc]
  cases hdl : digits.toList with
  | nil => exact absurd hdl hd
  | cons d0 ds =>
    rw [hdl] at hall
    have := findAll_general ds d0 (hall d0 (by simp)) (fun x hx => hall x (by simp [hx])) pre.toList.length pre.toList (Nat.le_refl _)
      ((pre ++ digits ++ "_keypoints.json").length + 1) true
      (by simp only [String.length_append, String.length_toList]; omega) (fun _ => rfl) hlast hno
    simp only [List.cons_append] at this ⊢
    rw [this]
    rfl

/-- the documented naming scheme `[ARBITRARY CHARACTERS]_[FRAME_ID]_keypoints.json`: no condition on the arbitrary characters at all -/
theorem frame_id_documented (pre digits : String) (hd : digits.toList ≠ []) (hall : ∀ c ∈ digits.toList, isDigit c = true) :
    frameId (pre ++ "_" ++ digits ++ "_keypoints.json") = some (digitsToNat digits.toList) := by
  apply frame_id_last_group (pre ++ "_") digits _ _ hd hall
  · intro x hx
    have : (pre ++ "_").toList = pre.toList ++ ['_'] := by simp
    rw [this, List.getLast?_append] at hx
    simp at hx
    subst hx; decide
  · intro c hc
    have : (pre ++ "_").toList = pre.toList ++ ['_'] := by simp
    rw [this] at hc
    obtain ⟨t, ht⟩ := hc
    have := congrArg List.getLast? ht
    simp only [List.getLast?_append] at this
    revert this; simp [kJson]

/-- the excluded case is real: the earlier match consumes the character in front of the last group, and `re.findall` does not find it -/
example : frameId "x1_keypoints.json2_keypoints.json" = some 1 := by decide +kernel
example : frameId "cam2-000017_keypoints.json" = some 17 := by decide +kernel
example : frameId "a1_keypoints.json_23_7_keypoints.json" = some 7 := by decide +kernel

example : frameId "video_000000000012_keypoints.json" = some 12 := by decide +kernel
/-- two components of 1 and 2 keypoints; frame 2 has one person; frames 0, 1 are absent -/
example : (loadOpenpose natSc (· == 0) [1, 2] [⟨2, [[[11, 12, 1], [21, 22, 0, 31, 32, 7]]]⟩] 24 none).map (fun b => (b.conf, b.data.getD 2 [], b.missing.getD 2 [])) =
    some ([[[0, 0, 0]], [[0, 0, 0]], [[1, 0, 7]]], [[[11, 12], [21, 22], [31, 32]]], [[[false, false], [true, true], [false, false]]]) := by decide +kernel

end PoseVerif.Props.C19
namespace PoseVerif.Props.C19
open PoseVerif
variable {S : Type}
/-- **Every cell**: frame `f`, person `p`, keypoint `k` of the loaded pose holds the `x`, `y` and confidence of `opCell`, and is missing exactly when that confidence is 0. -/
theorem openpose_cell (sc : Scalar S) (isZero : S → Bool) (sizes : List Nat) (frames : List (OPFrame S)) (fps : S) (nf : Option Nat) (b : PBody S)
    (h : loadOpenpose sc isZero sizes frames fps nf = some b) (f p k : Nat) (hf : f < numFrames b) (hp : p < (b.conf.headD []).length) (hk : k < sizes.sum) [Inhabited S] :
    ((b.conf.getD f []).getD p []).getD k default = (opCell sc sizes frames f p k).2.2 ∧
    ((b.data.getD f []).getD p []).getD k [] = [(opCell sc sizes frames f p k).1, (opCell sc sizes frames f p k).2.1] ∧
    ((b.missing.getD f []).getD p []).getD k [] = [isZero (opCell sc sizes frames f p k).2.2, isZero (opCell sc sizes frames f p k).2.2] := by
  unfold loadOpenpose at h
  simp only [Option.bind_eq_bind, Option.bind_eq_some_iff] at h
  obtain ⟨maxId, hmax, people, hpeople, h⟩ := h
  split at h
  · cases h
  · split at h
    · cases h
    · simp only [Option.some.injEq] at h
      subst h
      simp only [numFrames, mkBody, List.length_map, List.length_range] at hf
      have hp' : p < people := by
        cases hn : nf.getD (maxId + 1) with
        | zero => rw [hn] at hf; omega
        | succ m => simp [mkBody, hn, List.range_succ_eq_map] at hp; exact hp
      simp only [mkBody]
      rw [or4_self]
      refine ⟨?_, ?_, ?_⟩
      · rw [getD_range_map _ _ _ _ hf, getD_range_map _ _ _ _ hp', getD_range_map _ _ _ _ hk]
      · rw [getD_range_map _ _ _ _ hf, getD_range_map _ _ _ _ hp', getD_range_map _ _ _ _ hk]
      · simp only [deriveMissing]
        have e1 := getD_zipWith' (List.zipWith (List.zipWith fun (pt : List S) c => pt.map fun _ => isZero c))
          ((List.range (nf.getD (maxId + 1))).map fun f => (List.range people).map fun p => (List.range sizes.sum).map fun k => [(opCell sc sizes frames f p k).1, (opCell sc sizes frames f p k).2.1])
          ((List.range (nf.getD (maxId + 1))).map fun f => (List.range people).map fun p => (List.range sizes.sum).map fun k => (opCell sc sizes frames f p k).2.2)
          (by simp) f [] []
        simp only [List.zipWith_nil_left] at e1
        rw [e1, getD_range_map _ _ _ _ hf, getD_range_map _ _ _ _ hf]
        have e2 := getD_zipWith' (List.zipWith fun (pt : List S) c => pt.map fun _ => isZero c)
          ((List.range people).map fun p => (List.range sizes.sum).map fun k => [(opCell sc sizes frames f p k).1, (opCell sc sizes frames f p k).2.1])
          ((List.range people).map fun p => (List.range sizes.sum).map fun k => (opCell sc sizes frames f p k).2.2) (by simp) p [] []
        simp only [List.zipWith_nil_left] at e2
        rw [e2, getD_range_map _ _ _ _ hp', getD_range_map _ _ _ _ hp']
        have e3 := getD_zipWith' (fun (pt : List S) c => pt.map fun _ => isZero c)
          ((List.range sizes.sum).map fun k => [(opCell sc sizes frames f p k).1, (opCell sc sizes frames f p k).2.1])
          ((List.range sizes.sum).map fun k => (opCell sc sizes frames f p k).2.2) (by simp) k [] default
        simp only [List.map_nil] at e3
        rw [e3, getD_range_map _ _ _ _ hk, getD_range_map _ _ _ _ hk]
        rfl

/-- a frame that is absent from the input, or a person absent from a frame, is all zeros (hence missing) -/
theorem openpose_absent (sc : Scalar S) (sizes : List Nat) (frames : List (OPFrame S)) (f p k : Nat)
    (h : frames.find? (·.id == f) = none ∨ ∃ fr, frames.find? (·.id == f) = some fr ∧ fr.people.length ≤ p) :
    opCell sc sizes frames f p k = (sc.zero, sc.zero, sc.zero) := by
  unfold opCell
  rcases h with h | ⟨fr, h, hp⟩
  · rw [h]
  · rw [h]; simp only []
    rw [List.getElem?_eq_none hp]

/-- a present keypoint is the triple `(numbers[3j], numbers[3j+1], numbers[3j+2])` of its component, found at the component's own offset in the header -/
theorem openpose_present [Inhabited S] (sc : Scalar S) (sizes : List Nat) (frames : List (OPFrame S)) (fr : OPFrame S) (f p c j : Nat) (person : List (List S))
    (hfind : frames.find? (·.id == f) = some fr) (hperson : fr.people[p]? = some person) (hc : c < sizes.length) (hj : j < sizes[c])
    (hk : 3 * j + 2 < (person.getD c []).length) :
    opCell sc sizes frames f p ((sizes.take c).sum + j) =
      ((person.getD c []).getD (3 * j) default, (person.getD c []).getD (3 * j + 1) default, (person.getD c []).getD (3 * j + 2) default) := by
  unfold opCell
  rw [hfind]; simp only [hperson, locate_offset sizes c j hc hj]
  have := triplesOf_get (person.getD c []) j hk
  rw [List.getD_eq_getElem?_getD (l := triplesOf (person.getD c [])), this]
  rfl

/-- a part OpenPose was not asked to detect (an empty list), or a list that stops early: the remaining points of that component are zeros, hence missing,
    and the components after it are where `openpose_present` says -/
theorem openpose_short_component (sc : Scalar S) (sizes : List Nat) (frames : List (OPFrame S)) (fr : OPFrame S) (f p c j : Nat) (person : List (List S))
    (hfind : frames.find? (·.id == f) = some fr) (hperson : fr.people[p]? = some person) (hc : c < sizes.length) (hj : j < sizes[c])
    (hshort : (triplesOf (person.getD c [])).length ≤ j) :
    opCell sc sizes frames f p ((sizes.take c).sum + j) = (sc.zero, sc.zero, sc.zero) := by
  unfold opCell
  rw [hfind]; simp only [hperson, locate_offset sizes c j hc hj]
  rw [List.getD_eq_getElem?_getD (l := triplesOf (person.getD c [])), List.getElem?_eq_none hshort]
  rfl

/-- **the loops compute the closed form**: for a person whose lists fit the header (no list longer than its component), the row the loops leave is, cell by cell,
    what `opCell` reads off the lists -/
theorem loopPerson_cell (sc : Scalar S) (sizes : List Nat) (person : List (List S)) (hl : person.length = sizes.length)
    (hdom : ∀ ns ∈ person.zip sizes, (triplesOf ns.1).length ≤ ns.2) (k : Nat) :
    (loopPerson (sc.zero, sc.zero, sc.zero) sizes person).getD k (sc.zero, sc.zero, sc.zero) =
      match locate sizes k with
      | some (c, j) => (triplesOf (person.getD c [])).getD j (sc.zero, sc.zero, sc.zero)
      | none => (sc.zero, sc.zero, sc.zero) := by
  unfold loopPerson
  rw [loop_getD (sc.zero, sc.zero, sc.zero) person sizes _ 0 k hl hdom (by simp)]
  simp only [Nat.not_lt_zero, if_false, Nat.sub_zero]
  have hrep : (List.replicate sizes.sum (sc.zero, sc.zero, sc.zero)).getD k (sc.zero, sc.zero, sc.zero) = (sc.zero, sc.zero, sc.zero) := by
    simp [List.getD_eq_getElem?_getD, List.getElem?_replicate]
    split <;> rfl
  cases hloc : locate sizes k with
  | none => simp only [hrep]
  | some cj =>
    obtain ⟨c, j⟩ := cj
    simp only [hrep]
    split
    · rfl
    · rename_i hj
      have hj' : (triplesOf (person.getD c [])).length ≤ j := Nat.le_of_not_lt hj
      rw [List.getD_eq_getElem?_getD (l := triplesOf (person.getD c [])), List.getElem?_eq_none hj']
      rfl

/-- hence the loaded body is what the loops write: cell `(f, p, k)` of `loadOpenpose` is cell `k` of the looped row of frame `f`'s person `p` -/
theorem opCell_eq_loop (sc : Scalar S) (sizes : List Nat) (frames : List (OPFrame S)) (fr : OPFrame S) (f p k : Nat) (person : List (List S))
    (hfind : frames.find? (·.id == f) = some fr) (hperson : fr.people[p]? = some person) (hl : person.length = sizes.length)
    (hdom : ∀ ns ∈ person.zip sizes, (triplesOf ns.1).length ≤ ns.2) :
    opCell sc sizes frames f p k = (loopPerson (sc.zero, sc.zero, sc.zero) sizes person).getD k (sc.zero, sc.zero, sc.zero) := by
  rw [loopPerson_cell sc sizes person hl hdom k]
  unfold opCell
  rw [hfind]; simp only [hperson]
  cases locate sizes k with
  | none => rfl
  | some cj => rfl

/-! the domain hypothesis is needed: a list longer than its component spills into the next component's cells (what the loops do; `loadOpenpose` refuses such input) -/
example : loopPerson (0, 0, 0) [1, 1] [[1, 2, 3, 4, 5, 6], []] = [(1, 2, 3), (4, 5, 6)] := by decide
example : loopPerson (0, 0, 0) [2, 1] [[], [7, 8, 9]] = [(0, 0, 0), (0, 0, 0), (7, 8, 9)] := by decide

end PoseVerif.Props.C19
