import PoseVerif.Proofs.C08Lemmas
/-!
# C08 — NumPy, PyTorch and TensorFlow bodies hold the same pose

`mkBody be` models the three constructors, `getPoints / selectFrames / sliceStep / matmulBody / zeroFilledBody` the operations they share.
`Consistent`: the missing flags are the ones derived from the confidences (what every constructor produces from plain data);
`SameShape3`: coordinates and confidences have the same frame / person / point extents.
-/
namespace PoseVerif.Props.C08
open PoseVerif
variable {S : Type}
/-- Reading the same data into any of the three body types gives the same body: same coordinates, confidences and missing pattern. -/
theorem backends_agree (isZero : S → Bool) (fps : S) (data : A4 S) (conf : A3 S) (be₁ be₂ : Backend) :
    mkBody be₁ isZero fps data conf none = mkBody be₂ isZero fps data conf none := by
  cases be₁ <;> cases be₂ <;> rfl

/-- what a constructor produces from plain data is consistent -/
theorem mkBody_consistent (be : Backend) (isZero : S → Bool) (fps : S) (data : A4 S) (conf : A3 S) :
    Consistent isZero (mkBody be isZero fps data conf none) := by
  cases be <;> rfl

/-- Converting a (consistent) NumPy body with `torch()` / `tensorflow()` — raw coordinates and confidences handed to the other constructor — gives the same body. -/
theorem convert_eq (isZero : S → Bool) (b : PBody S) (hc : Consistent isZero b) (be : Backend) :
    mkBody be isZero b.fps b.data b.conf none = b := by
  cases b with
  | mk fps data conf missing =>
    simp only [Consistent] at hc
    cases be <;> simp [mkBody, hc]

/-- A point is missing in ALL of its dimensions exactly when its confidence is 0: the flags of point `(f, p, n)` are `isZero (conf f p n)`, once per coordinate. -/
theorem missing_all_dims_iff_conf_zero (isZero : S → Bool) (data : A4 S) (conf : A3 S) (hs : SameShape3 data conf) (f p n : Nat) [Inhabited S] :
    (((deriveMissing isZero data conf).getD f []).getD p []).getD n [] =
      (((data.getD f []).getD p []).getD n []).map fun _ => isZero (((conf.getD f []).getD p []).getD n default) := by
  unfold deriveMissing
  have h1 := getD_zipWith' (List.zipWith (List.zipWith fun (pt : List S) c => pt.map fun _ => isZero c)) data conf hs.length_eq f [] []
  simp only [List.zipWith_nil_left] at h1
  rw [h1]
  have hs2 : F2 (fun (x : List (List S)) (y : List S) => x.length = y.length) (data.getD f []) (conf.getD f []) := hs.getD F2.nil f
  have h2 := getD_zipWith' (List.zipWith fun (pt : List S) c => pt.map fun _ => isZero c) (data.getD f []) (conf.getD f []) hs2.length_eq p [] []
  simp only [List.zipWith_nil_left] at h2
  rw [h2]
  have hs3 : ((data.getD f []).getD p []).length = ((conf.getD f []).getD p []).length := hs2.getD rfl p
  have h3 := getD_zipWith' (fun (pt : List S) c => pt.map fun _ => isZero c) ((data.getD f []).getD p []) ((conf.getD f []).getD p []) hs3 n [] default
  simp only [List.map_nil] at h3
  exact h3

end PoseVerif.Props.C08
namespace PoseVerif.Props.C08
open PoseVerif
variable {S : Type}
/-- point selection: the same body on every backend (and consistent again) -/
theorem getPoints_agree [Inhabited S] (isZero : S → Bool) (b : PBody S) (hc : Consistent isZero b) (hs : SameShape3 b.data b.conf) (ixs : List Nat) (be₁ be₂ : Backend) :
    getPoints be₁ isZero ixs b = getPoints be₂ isZero ixs b := by
  unfold getPoints
  have hm : b.missing.map (List.map (pickD ixs)) = deriveMissing isZero (b.data.map (List.map (pickD ixs))) (b.conf.map (List.map (pickD ixs))) := by
    rw [derive_getPoints isZero b.data b.conf hs ixs, ← hc]
  split
  · rw [mkBody_consistent_some be₁ _ _ _ _ _ hm, mkBody_consistent_some be₂ _ _ _ _ _ hm]
  · rfl

/-- frame selection -/
theorem selectFrames_agree [Inhabited S] (isZero : S → Bool) (b : PBody S) (hc : Consistent isZero b) (hs : SameShape3 b.data b.conf) (ixs : List Nat) (be₁ be₂ : Backend) :
    selectFrames be₁ isZero ixs b = selectFrames be₂ isZero ixs b := by
  unfold selectFrames
  have hm : pickD ixs b.missing = deriveMissing isZero (pickD ixs b.data) (pickD ixs b.conf) := by
    rw [derive_selectFrames isZero b.data b.conf hs ixs, ← hc]
  split
  · rw [mkBody_consistent_some be₁ _ _ _ _ _ hm, mkBody_consistent_some be₂ _ _ _ _ _ hm]
  · rfl

/-- stepping -/
theorem sliceStep_agree [Inhabited S] (sc : Scalar S) (isZero : S → Bool) (b : PBody S) (hc : Consistent isZero b) (hs : SameShape3 b.data b.conf) (k : Nat) (be₁ be₂ : Backend) :
    sliceStep be₁ sc isZero k b = sliceStep be₂ sc isZero k b := by
  unfold sliceStep
  have hm : everyNth k b.missing = deriveMissing isZero (everyNth k b.data) (everyNth k b.conf) := by
    rw [derive_sliceStep isZero b.data b.conf hs k, ← hc]
  split
  · rfl
  · rw [mkBody_consistent_some be₁ _ _ _ _ _ hm, mkBody_consistent_some be₂ _ _ _ _ _ hm]

/-- zero-fill and copy do not depend on the backend at all -/
theorem zeroFilled_backend_free (sc : Scalar S) (b : PBody S) : (zeroFilledBody sc b).missing = b.missing ∧ (zeroFilledBody sc b).conf = b.conf := ⟨rfl, rfl⟩

/-- matrix product, one point: multiplying the zero-filled coordinates (NumPy's `ma.dot`) and multiplying the raw coordinates (torch / tensorflow) give the same
    visible result — both zero-filled by the point's flag `z` replicated over its coordinates. No law of arithmetic is used. -/
theorem matmul_point_view [Inhabited S] (sc : Scalar S) (pt : List S) (z : Bool) (m : List (List S)) :
    zfRow sc (rowMat sc (zfRow sc pt (pt.map fun _ => z)) m) ((rowMat sc pt m).map fun _ => z)
      = zfRow sc (rowMat sc pt m) ((rowMat sc pt m).map fun _ => z) := by
  cases z with
  | true =>
    have hl := rowMat_length sc (zfRow sc pt (pt.map fun _ => true)) pt m
    simp only [zfRow] at hl ⊢
    apply List.ext_getElem
    · simp only [List.length_zipWith, List.length_map, hl]
    · intro i h1 h2; simp
  | false =>
    have : zfRow sc pt (pt.map fun _ => false) = pt := by
      simp only [zfRow]
      induction pt with
      | nil => rfl
      | cons x xs ih => simp [ih]
    rw [this]

end PoseVerif.Props.C08
