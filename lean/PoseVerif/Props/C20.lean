import PoseVerif.Proofs.C20Lemmas
/-!
# C20 — batch collation pads without altering or unmasking anything

Parametric in the element type `S` (no arithmetic is involved at all): values are moved, never computed with.
-/
namespace PoseVerif.Props.C20
open PoseVerif
variable {S : Type}
theorem padData_length {α : Type} (d : List α) (len maxLen inner : Nat) (pad : α) (hd : d.length = len * inner) (hl : len ≤ maxLen) :
    (padData d len maxLen inner pad).length = maxLen * inner := by
  simp only [padData, List.length_append, List.length_replicate, hd, ← Nat.add_mul]
  congr 1; omega

/-- each example's original values are reproduced unchanged at the start of its row … -/
theorem padData_prefix {α : Type} (d : List α) (len maxLen inner : Nat) (pad : α) (hd : d.length = len * inner) :
    (padData d len maxLen inner pad).take (len * inner) = d := by
  simp [padData, ← hd]

/-- … and every padded position holds the pad value -/
theorem padData_padding {α : Type} (d : List α) (len maxLen inner : Nat) (pad : α) (hd : d.length = len * inner) :
    (padData d len maxLen inner pad).drop (len * inner) = List.replicate ((maxLen - len) * inner) pad := by
  simp [padData, ← hd]

/-- **`pad_tensors`**: for a batch of examples with a common trailing shape, the result has shape `(batch, longest length, trailing…)` for values and validity alike,
    and row `e` is example `e`'s values / validity followed by the pad value / `False`. -/
theorem collate_masked (batch : List (MT S)) (pad : S) (trail : List Nat) (hne : batch ≠ []) (hok : ∀ x ∈ batch, Ok trail x) :
    ∃ r, padMasked batch pad = some r ∧
      r.tensor.shape = batch.length :: maxList (batch.map fun x => x.tensor.shape.headD 0) :: trail ∧ r.mask.shape = r.tensor.shape ∧
      ∀ e (he : e < batch.length),
        let x := batch[e]
        let len := x.tensor.shape.headD 0
        let maxLen := maxList (batch.map fun x => x.tensor.shape.headD 0)
        let row := maxLen * numel trail
        len ≤ maxLen ∧
        ((r.tensor.data.drop (e * row)).take row).take (len * numel trail) = x.tensor.data ∧
        ((r.tensor.data.drop (e * row)).take row).drop (len * numel trail) = List.replicate ((maxLen - len) * numel trail) pad ∧
        ((r.mask.data.drop (e * row)).take row).take (len * numel trail) = x.mask.data ∧
        ((r.mask.data.drop (e * row)).take row).drop (len * numel trail) = List.replicate ((maxLen - len) * numel trail) false := by
  cases batch with
  | nil => exact absurd rfl hne
  | cons x0 rest =>
    obtain ⟨l0, hs0⟩ := (hok x0 (by simp)).shape
    have hall : ((x0 :: rest).all fun x => x.tensor.shape.tail = trail ∧ x.tensor.shape ≠ [] ∧ x.mask.shape = x.tensor.shape) = true := by
      simp only [List.all_eq_true, decide_eq_true_eq]
      intro x hx
      obtain ⟨l, hl⟩ := (hok x hx).shape
      exact ⟨by rw [hl]; rfl, by rw [hl]; simp, (hok x hx).mask⟩
    simp only [padMasked, hs0, hall, if_true]
    refine ⟨_, rfl, rfl, rfl, ?_⟩
    intro e he
    simp only []
    have hmem : (x0 :: rest)[e] ∈ (x0 :: rest) := List.getElem_mem he
    have hxo := hok _ hmem
    have hle : (x0 :: rest)[e].tensor.shape.headD 0 ≤ maxList ((x0 :: rest).map fun x => x.tensor.shape.headD 0) :=
      le_maxList _ _ (List.mem_map.mpr ⟨_, hmem, rfl⟩)
    have hrowsT : ∀ r ∈ (x0 :: rest).map (fun x => padData x.tensor.data (x.tensor.shape.headD 0) (maxList ((x0 :: rest).map fun x => x.tensor.shape.headD 0)) (numel trail) pad),
        r.length = maxList ((x0 :: rest).map fun x => x.tensor.shape.headD 0) * numel trail := by
      intro r hr
      obtain ⟨x, hx, rfl⟩ := List.mem_map.mp hr
      exact padData_length _ _ _ _ _ (hok x hx).tlen (le_maxList _ _ (List.mem_map.mpr ⟨_, hx, rfl⟩))
    have hrowsM : ∀ r ∈ (x0 :: rest).map (fun x => padData x.mask.data (x.tensor.shape.headD 0) (maxList ((x0 :: rest).map fun x => x.tensor.shape.headD 0)) (numel trail) false),
        r.length = maxList ((x0 :: rest).map fun x => x.tensor.shape.headD 0) * numel trail := by
      intro r hr
      obtain ⟨x, hx, rfl⟩ := List.mem_map.mp hr
      exact padData_length _ _ _ _ _ (hok x hx).mlen (le_maxList _ _ (List.mem_map.mpr ⟨_, hx, rfl⟩))
    have bT := flatten_block _ _ hrowsT e (by simpa using he)
    have bM := flatten_block _ _ hrowsM e (by simpa using he)
    simp only [List.getElem_map] at bT bM
    rw [bT, bM]
    exact ⟨hle, padData_prefix _ _ _ _ _ hxo.tlen, padData_padding _ _ _ _ _ hxo.tlen, padData_prefix _ _ _ _ _ hxo.mlen, padData_padding _ _ _ _ _ hxo.mlen⟩

/-- integers become one integer tensor, in order -/
theorem collate_ints (pad : S) (fuel : Nat) (n : Int) (ns : List Int) :
    collateTensors pad (fuel + 1) ((n :: ns).map Datum.int) = some (Collated.ints (n :: ns)) := by
  have : ((n :: ns).map (Datum.int (S := S))).mapM Datum.asInt? = some (n :: ns) := by
    induction (n :: ns) with
    | nil => rfl
    | cons a as ih => simp [List.mapM_cons, Datum.asInt?, ih]
  simp only [List.map_cons] at this ⊢
  simp [collateTensors, this]

/-- strings are passed through in order -/
theorem collate_strings (pad : S) (fuel : Nat) (s : String) (ss : List String) :
    zeroPadCollator pad (fuel + 1) ((s :: ss).map Datum.str) = some (Collated.list ((s :: ss).map Datum.str)) := by
  simp [zeroPadCollator]

/-- a batch of masked tensors inside a dictionary field or a tuple slot is collated by `pad_tensors` -/
theorem collate_masked_field (pad : S) (fuel : Nat) (x : MT S) (xs : List (MT S)) :
    collateTensors pad (fuel + 1) ((x :: xs).map Datum.masked) = (padMasked (x :: xs) pad).map Collated.masked := by
  have : ((x :: xs).map (Datum.masked (S := S))).mapM Datum.asMasked? = some (x :: xs) := by
    induction (x :: xs) with
    | nil => rfl
    | cons a as ih => simp [List.mapM_cons, Datum.asMasked?, ih]
  simp only [List.map_cons] at this ⊢
  simp [collateTensors, this]

example : (padMasked [ex1, ex2, ex3] 9).map (fun r => (r.tensor.shape, r.tensor.data, r.mask.data)) =
    some ([3, 2, 2], [1, 2, 3, 4, 9, 9, 9, 9, 5, 6, 9, 9], [true, false, true, true, false, false, false, false, false, true, false, false]) := by decide

end PoseVerif.Props.C20
