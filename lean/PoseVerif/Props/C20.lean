import PoseVerif.Proofs.C20Lemmas
/-!
# C20 — batch collation pads without altering or unmasking anything

Parametric in the element type `S` (no arithmetic is involved at all): values are moved, never computed with.
-/
namespace PoseVerif.Props.C20
open PoseVerif
variable {S : Type}
theorem padData_length {α : Type} (d : List α) (len maxLen inner : Nat) (pad : α) (hd : d.length = len * inner) (hl : len ≤ maxLen) :
    (padData d len maxLen inner pad).length = maxLen * inner := by
  simp only [padData, List.length_append, List.length_replicate, hd, ← Nat.add_mul]
  congr 1; omega

/-- each example's original values are reproduced unchanged at the start of its row … -/
theorem padData_prefix {α : Type} (d : List α) (len maxLen inner : Nat) (pad : α) (hd : d.length = len * inner) :
    (padData d len maxLen inner pad).take (len * inner) = d := by
  simp [padData, ← hd]

/-- … and every padded position holds the pad value -/
theorem padData_padding {α : Type} (d : List α) (len maxLen inner : Nat) (pad : α) (hd : d.length = len * inner) :
    (padData d len maxLen inner pad).drop (len * inner) = List.replicate ((maxLen - len) * inner) pad := by
  simp [padData, ← hd]

/-- **`pad_tensors`**: for a batch of examples with a common trailing shape, the result has shape `(batch, longest length, trailing…)` for values and validity alike,
    and row `e` is example `e`'s values / validity followed by the pad value / `False`. -/
theorem collate_masked (batch : List (MT S)) (pad : S) (trail : List Nat) (hne : batch ≠ []) (hok : ∀ x ∈ batch, Ok trail x) :
    ∃ r, padMasked batch pad = some r ∧
      r.tensor.shape = batch.length :: maxList (batch.map fun x => x.tensor.shape.headD 0) :: trail ∧ r.mask.shape = r.tensor.shape ∧
      ∀ e (he : e < batch.length),
        let x := batch[e]
        let len := x.tensor.shape.headD 0
        let maxLen := maxList (batch.map fun x => x.tensor.shape.headD 0)
        let row := maxLen * numel trail
        len ≤ maxLen ∧
        ((r.tensor.data.drop (e * row)).take row).take (len * numel trail) = x.tensor.data ∧
        ((r.tensor.data.drop (e * row)).take row).drop (len * numel trail) = List.replicate ((maxLen - len) * numel trail) pad ∧
        ((r.mask.data.drop (e * row)).take row).take (len * numel trail) = x.mask.data ∧
        ((r.mask.data.drop (e * row)).take row).drop (len * numel trail) = List.replicate ((maxLen - len) * numel trail) false := by
  cases batch with
  | nil => exact absurd rfl hne
  | cons x0 rest =>
    obtain ⟨l0, hs0⟩ := (hok x0 (by simp)).shape
    have hall : ((x0 :: rest).all fun x => x.tensor.shape.tail = trail ∧ x.tensor.shape ≠ [] ∧ x.mask.shape = x.tensor.shape) = true := by
      simp only [List.all_eq_true, decide_eq_true_eq]
      intro x hx
      obtain ⟨l, hl⟩ := (hok x hx).shape
      exact ⟨by rw [hl]; rfl, by rw [hl]; simp, (hok x hx).mask⟩
    simp only [padMasked, hs0, hall, if_true]
    refine ⟨_, rfl, rfl, rfl, ?_⟩
    intro e he
    simp only []
    have hmem : (x0 :: rest)[e] ∈ (x0 :: rest) := List.getElem_mem he
    have hxo := hok _ hmem
    have hle : (x0 :: rest)[e].tensor.shape.headD 0 ≤ maxList ((x0 :: rest).map fun x => x.tensor.shape.headD 0) :=
      le_maxList _ _ (List.mem_map.mpr ⟨_, hmem, rfl⟩)
    have hrowsT : ∀ r ∈ (x0 :: rest).map (fun x => padData x.tensor.data (x.tensor.shape.headD 0) (maxList ((x0 :: rest).map fun x => x.tensor.shape.headD 0)) (numel trail) pad),
        r.length = maxList ((x0 :: rest).map fun x => x.tensor.shape.headD 0) * numel trail := by
      intro r hr
      obtain ⟨x, hx, rfl⟩ := List.mem_map.mp hr
      exact padData_length _ _ _ _ _ (hok x hx).tlen (le_maxList _ _ (List.mem_map.mpr ⟨_, hx, rfl⟩))
    have hrowsM : ∀ r ∈ (x0 :: rest).map (fun x => padData x.mask.data (x.tensor.shape.headD 0) (maxList ((x0 :: rest).map fun x => x.tensor.shape.headD 0)) (numel trail) false),
        r.length = maxList ((x0 :: rest).map fun x => x.tensor.shape.headD 0) * numel trail := by
      intro r hr
      obtain ⟨x, hx, rfl⟩ := List.mem_map.mp hr
      exact padData_length _ _ _ _ _ (hok x hx).mlen (le_maxList _ _ (List.mem_map.mpr ⟨_, hx, rfl⟩))
    have bT := flatten_block _ _ hrowsT e (by simpa using he)
    have bM := flatten_block _ _ hrowsM e (by simpa using he)
    simp only [List.getElem_map] at bT bM
    rw [bT, bM]
    exact ⟨hle, padData_prefix _ _ _ _ _ hxo.tlen, padData_padding _ _ _ _ _ hxo.tlen, padData_prefix _ _ _ _ _ hxo.mlen, padData_padding _ _ _ _ _ hxo.mlen⟩

/-- integers become one integer tensor, in order -/
theorem collate_ints (pad : S) (fuel : Nat) (n : Int) (ns : List Int) :
    collateTensors pad (fuel + 1) ((n :: ns).map Datum.int) = some (Collated.ints (n :: ns)) := by
  have : ((n :: ns).map (Datum.int (S := S))).mapM Datum.asInt? = some (n :: ns) := by
    induction (n :: ns) with
    | nil => rfl
    | cons a as ih => simp [List.mapM_cons, Datum.asInt?, ih]
  simp only [List.map_cons] at this ⊢
  simp [collateTensors, this]

/-- strings are passed through in order -/
theorem collate_strings (pad : S) (fuel : Nat) (s : String) (ss : List String) :
    zeroPadCollator pad (fuel + 1) ((s :: ss).map Datum.str) = some (Collated.list ((s :: ss).map Datum.str)) := by
  simp [zeroPadCollator]

/-- a batch of masked tensors inside a dictionary field or a tuple slot is collated by `pad_tensors` -/
theorem collate_masked_field (pad : S) (fuel : Nat) (x : MT S) (xs : List (MT S)) :
    collateTensors pad (fuel + 1) ((x :: xs).map Datum.masked) = (padMasked (x :: xs) pad).map Collated.masked := by
  have : ((x :: xs).map (Datum.masked (S := S))).mapM Datum.asMasked? = some (x :: xs) := by
    induction (x :: xs) with
    | nil => rfl
    | cons a as ih => simp [List.mapM_cons, Datum.asMasked?, ih]
  simp only [List.map_cons] at this ⊢
  simp [collateTensors, this]

example : (padMasked [ex1, ex2, ex3] 9).map (fun r => (r.tensor.shape, r.tensor.data, r.mask.data)) =
    some ([3, 2, 2], [1, 2, 3, 4, 9, 9, 9, 9, 5, 6, 9, 9], [true, false, true, true, false, false, false, false, false, true, false, false]) := by decide

/-! ### dictionaries: fields are matched by key -/

theorem find_key_iff {α : Type} (fs : List (String × α)) (hnd : (fs.map (·.1)).Nodup) (k : String) (kv : String × α) :
    fs.find? (·.1 == k) = some kv ↔ kv ∈ fs ∧ kv.1 = k := by
  induction fs with
  | nil => simp
  | cons a as ih =>
    simp only [List.map_cons, List.nodup_cons] at hnd
    simp only [List.find?_cons]
    by_cases hak : a.1 = k
    · simp only [hak, beq_self_eq_true, Option.some.injEq, List.mem_cons]
      constructor
      · rintro rfl; exact ⟨Or.inl rfl, hak⟩
      · rintro ⟨h | h, hk⟩
        · exact h.symm
        · exfalso; apply hnd.1; rw [hak, ← hk]; exact List.mem_map_of_mem h
    · have : (a.1 == k) = false := by simpa using hak
      simp only [this, List.mem_cons]
      rw [ih hnd.2]
      constructor
      · rintro ⟨h, hk⟩; exact ⟨Or.inr h, hk⟩
      · rintro ⟨h | h, hk⟩
        · subst h; exact absurd hk hak
        · exact ⟨h, hk⟩

/-- Fields are matched by key: looking a field up does not depend on the order in which an example lists its (distinctly named) fields. -/
theorem field_order (fs fs' : List (String × Datum S)) (hp : fs.Perm fs') (hnd : (fs.map (·.1)).Nodup) (k : String) :
    (Datum.dict fs).field? k = (Datum.dict fs').field? k := by
  have hnd' : (fs'.map (·.1)).Nodup := (hp.map _).nodup_iff.mp hnd
  simp only [Datum.field?]
  cases h : fs.find? (·.1 == k) with
  | none =>
    cases h' : fs'.find? (·.1 == k) with
    | none => rfl
    | some kv =>
      have := (find_key_iff fs' hnd' k kv).mp h'
      have hm : kv ∈ fs := hp.mem_iff.mpr this.1
      have := (find_key_iff fs hnd k kv).mpr ⟨hm, this.2⟩
      rw [h] at this; cases this
  | some kv =>
    have := (find_key_iff fs hnd k kv).mp h
    have hm : kv ∈ fs' := hp.mem_iff.mp this.1
    rw [(find_key_iff fs' hnd' k kv).mpr ⟨hm, this.2⟩]

/-- two batches whose examples are dictionaries with the same fields, listed in possibly different orders -/
inductive SameFields : List (Datum S) → List (Datum S) → Prop
  | nil : SameFields [] []
  | cons (fs fs' : List (String × Datum S)) (r r' : List (Datum S)) (hp : fs.Perm fs') (hnd : (fs.map (·.1)).Nodup) (h : SameFields r r') :
      SameFields (.dict fs :: r) (.dict fs' :: r')

theorem mapM_field_order (k : String) : ∀ {b b' : List (Datum S)}, SameFields b b' → (b.mapM fun x => x.field? k) = (b'.mapM fun x => x.field? k)
  | _, _, .nil => rfl
  | _, _, .cons fs fs' r r' hp hnd h => by
    simp only [List.mapM_cons]
    rw [field_order fs fs' hp hnd k, mapM_field_order k h]

/-- Collating dictionaries matches the fields by KEY: whatever order the later examples list their fields in, the batch is the same
    (the first example fixes the order of the result). -/
theorem collate_dict_order (pad : S) (fuel : Nat) (fields : List (String × Datum S)) (rest rest' : List (Datum S)) (h : SameFields rest rest') :
    zeroPadCollator pad fuel (.dict fields :: rest) = zeroPadCollator pad fuel (.dict fields :: rest') := by
  cases fuel with
  | zero => simp [zeroPadCollator]
  | succ fuel =>
    have hm : ∀ k : String, ((Datum.dict fields :: rest).mapM fun (b : Datum S) => b.field? k) = ((Datum.dict fields :: rest').mapM fun (b : Datum S) => b.field? k) := by
      intro k
      simp only [List.mapM_cons]
      rw [mapM_field_order k h]
    simp only [zeroPadCollator, hm]

example : SameFields (S := Nat) [.dict [("a", .int 1), ("b", .str "x")]] [.dict [("b", .str "x"), ("a", .int 1)]] :=
  .cons _ _ _ _ (List.Perm.swap _ _ _) (by decide) .nil
/-! ### the equal-lengths special case; nothing reordered, nothing invented -/

/-- the "already equal lengths" special case: an example that is as long as the longest one is reproduced as it is — no element is added -/
theorem padData_full {α : Type} (d : List α) (len maxLen inner : Nat) (pad : α) (hl : maxLen ≤ len) :
    padData d len maxLen inner pad = d := by
  have : maxLen - len = 0 := by omega
  simp [padData, this]

/-- padding never reorders or rewrites: the original data is a prefix of the padded row, whatever the lengths -/
theorem padData_isPrefix {α : Type} (d : List α) (len maxLen inner : Nat) (pad : α) :
    d <+: padData d len maxLen inner pad := by
  simp [padData]

/-- every element of the padded row is an original element or the pad value: nothing is invented -/
theorem padData_mem {α : Type} (d : List α) (len maxLen inner : Nat) (pad x : α) (hx : x ∈ padData d len maxLen inner pad) :
    x ∈ d ∨ x = pad := by
  simp only [padData, List.mem_append, List.mem_replicate] at hx
  rcases hx with h | ⟨_, h⟩
  · exact Or.inl h
  · exact Or.inr h

example : padData [1, 2, 3, 4] 2 2 2 0 = [1, 2, 3, 4] := by decide
example : padData [1, 2] 1 3 2 9 = [1, 2, 9, 9, 9, 9] := by decide
/-! ### the code's "nothing to pad" shortcut agrees with the general rule -/

theorem maxList_le_of_all (l : List Nat) (L : Nat) (h : ∀ x ∈ l, x ≤ L) : maxList l ≤ L := by
  induction l with
  | nil => simp [maxList]
  | cons x xs ih =>
    simp only [maxList]
    have := h x (by simp)
    have := ih (fun y hy => h y (by simp [hy]))
    omega

/-- **the "nothing to pad" branch is the general rule**: when every example has the same length, the collated batch is the plain stack — each example's
    values and validity, one after the other, with not a single element added (the code takes a shortcut here; the model does not, and they agree). -/
theorem padMasked_equal_lengths (batch : List (MT S)) (pad : S) (L : Nat) (r : MT S)
    (hL : ∀ x ∈ batch, x.tensor.shape.headD 0 = L) (h : padMasked batch pad = some r) :
    r.tensor.data = (batch.map fun x => x.tensor.data).flatten ∧ r.mask.data = (batch.map fun x => x.mask.data).flatten := by
  unfold padMasked at h
  split at h
  · exact absurd h (by simp)
  · next x0 rest =>
    split at h
    · exact absurd h (by simp)
    · next d trail hs =>
      split at h
      · simp only [Option.some.injEq] at h
        subst h
        have hmax : maxList ((x0 :: rest).map fun x => x.tensor.shape.headD 0) ≤ L :=
          maxList_le_of_all _ L (by intro y hy; simp only [List.mem_map] at hy; obtain ⟨x, hx, rfl⟩ := hy; exact Nat.le_of_eq (hL x hx))
        constructor
        · simp only
          congr 1
          apply List.map_congr_left
          intro x hx
          exact padData_full _ _ _ _ _ (by rw [hL x hx]; exact hmax)
        · simp only
          congr 1
          apply List.map_congr_left
          intro x hx
          exact padData_full _ _ _ _ _ (by rw [hL x hx]; exact hmax)
      · exact absurd h (by simp)
example : (padMasked [ex1, ex1] 0).map (·.tensor.data) = some [1, 2, 3, 4, 1, 2, 3, 4] := by decide
end PoseVerif.Props.C20
