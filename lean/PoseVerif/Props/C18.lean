import PoseVerif.Model.Concurrent
import PoseVerif.Proofs.Cache
/-!
# C18 — concurrent reads are isolated from each other

The theorem is about the cache protocol with atomic lookup and update sections (what the code does once `PoseHeader.read` takes the lock
around lookup+copy and around update); everything else a read does is thread-local. Interleavings inside a source line / inside C extensions
are not modelled (GIL assumption, see DESIGN.md §4).
-/
namespace PoseVerif.Props.C18
open PoseVerif

variable {H : Type} (parse : Bytes → Option (H × Nat))

/-- the cache is empty or a consistent snapshot (bytes, end, header) of some file's header; a thread between parse and update holds its own file's decode;
    a finished thread holds its own file's decode -/
def CInv (files : Nat → Bytes) (s : CState H) : Prop :=
  (∀ c, s.cache = some c → ∃ f, parse f = some (c.hdr, c.endOff) ∧ c.key = f.take c.endOff) ∧
  (∀ t h e, s.pc t = .parsed h e → parse (files t) = some (h, e)) ∧
  (∀ t r, s.pc t = .done r → r = parse (files t))

theorem step_inv (hdet : PrefixDet parse) (files : Nat → Bytes) (s : CState H) (t : Nat) (h : CInv parse files s) :
    CInv parse files (cstep parse files s t) := by
  obtain ⟨hc, hp, hd⟩ := h
  have hmiss : CInv parse files (match parse (files t) with
      | some (h, e) => { s with pc := fun u => if u = t then PC.parsed h e else s.pc u }
      | none => { s with pc := fun u => if u = t then PC.done none else s.pc u }) := by
    split
    · rename_i h' e' hpar
      refine ⟨hc, ?_, ?_⟩
      · intro u h'' e'' hu; by_cases hut : u = t
        · simp [hut] at hu; obtain ⟨rfl, rfl⟩ := hu; subst hut; exact hpar
        · simp [hut] at hu; exact hp u h'' e'' hu
      · intro u r hu; by_cases hut : u = t <;> simp [hut] at hu; exact hd u r hu
    · rename_i hpar
      refine ⟨hc, ?_, ?_⟩
      · intro u h'' e'' hu; by_cases hut : u = t <;> simp [hut] at hu; exact hp u h'' e'' hu
      · intro u r hu; by_cases hut : u = t
        · simp [hut] at hu; subst hu; subst hut; exact hpar.symm
        · simp [hut] at hu; exact hd u r hu
  unfold cstep
  simp only []
  split
  · -- start
    split
    · rename_i c hcache
      split
      · rename_i hhit
        refine ⟨hc, ?_, ?_⟩
        · intro u h' e' hu; by_cases hut : u = t <;> simp [hut] at hu; exact hp u h' e' hu
        · intro u r hu
          by_cases hut : u = t
          · simp [hut] at hu; subst hu; subst hut
            obtain ⟨f, hf, hk⟩ := hc c hcache
            simp [CEntry.hit] at hhit
            exact (hdet f (files u) c.hdr c.endOff hf (by rw [hhit, hk])).symm
          · simp [hut] at hu; exact hd u r hu
      · exact hmiss
    · exact hmiss
  · -- parsed → update
    rename_i h' e' hpc
    have hpar := hp t h' e' hpc
    refine ⟨?_, ?_, ?_⟩
    · intro c hcache; simp at hcache; subst hcache; exact ⟨files t, hpar, rfl⟩
    · intro u h'' e'' hu; by_cases hut : u = t <;> simp [hut] at hu; exact hp u h'' e'' hu
    · intro u r hu; by_cases hut : u = t
      · simp [hut] at hu; subst hu; subst hut; exact hpar.symm
      · simp [hut] at hu; exact hd u r hu
  · exact ⟨hc, hp, hd⟩
  · exact ⟨hc, hp, hd⟩

/-- **Every schedule, every number of threads**: a finished thread holds exactly what it would have read alone — the decode of its own file. -/
theorem reads_isolated_gen (hdet : PrefixDet parse) (files : Nat → Bytes) (s0 : CState H) (h0 : CInv parse files s0)
    (sched : List Nat) (t : Nat) (r : Option (H × Nat)) :
    (crun parse files s0 sched).pc t = .done r → r = parse (files t) := by
  have : CInv parse files (crun parse files s0 sched) := by
    unfold crun
    induction sched generalizing s0 with
    | nil => exact h0
    | cons x xs ih => exact ih (cstep parse files s0 x) (step_inv parse hdet files s0 x h0)
  exact this.2.2 t r

/-- …instantiated with the header decoder of the codec model, from a cache that is empty or holds what an earlier read stored, all threads at their start. -/
theorem reads_isolated (files : Nat → Bytes) (cache0 : Option (CEntry Header))
    (hc0 : ∀ c, cache0 = some c → ∃ f, parseHeader f = some (c.hdr, c.endOff) ∧ c.key = f.take c.endOff)
    (sched : List Nat) (t : Nat) (r : Option (Header × Nat)) :
    (crun parseHeader files { cache := cache0, pc := fun _ => .start } sched).pc t = .done r → r = parseHeader (files t) :=
  reads_isolated_gen parseHeader parseHeader_prefixDet files _
    ⟨hc0, by intro t h e ht; simp at ht, by intro t r ht; simp at ht⟩ sched t r

/-- every thread that is scheduled twice finishes (progress: lookup, then at most one update) -/
theorem finishes_after_two_steps (files : Nat → Bytes) (s : CState H) (t : Nat) (hm : s.pc t ≠ .matched) :
    ∃ r, (cstep parse files (cstep parse files s t) t).pc t = .done r := by
  unfold cstep
  simp only []
  cases hpc : s.pc t with
  | done r => exact ⟨r, by simp [hpc]⟩
  | matched => exact absurd hpc hm
  | parsed h e => exact ⟨some (h, e), by simp [hpc]⟩
  | start =>
    cases hcache : s.cache with
    | none =>
      cases hp : parse (files t) with
      | none => exact ⟨none, by simp [hpc, hcache, hp]⟩
      | some he => obtain ⟨h, e⟩ := he; exact ⟨some (h, e), by simp [hpc, hcache, hp]⟩
    | some c =>
      by_cases hh : c.hit (files t) = true
      · exact ⟨some (c.hdr, c.endOff), by simp [hpc, hcache, hh]⟩
      · cases hp : parse (files t) with
        | none => exact ⟨none, by simp [hpc, hcache, hh, hp]⟩
        | some he => obtain ⟨h, e⟩ := he; exact ⟨some (h, e), by simp [hpc, hcache, hh, hp]⟩

/-! ### why the sections must be atomic: the protocol with a separate compare and fetch (the code before the repair) is NOT isolated.
    Two one-byte "files" A = [1], B = [2] with headers 10 and 20; the cache holds A. Thread 0 (reading A) is preempted after the hash comparison,
    thread 1 reads B to completion, thread 0 then returns B's header for A's bytes. -/
def toyParse : Bytes → Option (Nat × Nat)
  | [1] => some (10, 1)
  | [2] => some (20, 1)
  | _ => none
def toyFiles : Nat → Bytes := fun t => if t = 0 then [1] else [2]
def toyStart : CState Nat := { cache := some ⟨[1], 1, 10⟩, pc := fun _ => .start }

example : ([0, 1, 1, 0].foldl (cstepSplit toyParse toyFiles) toyStart).pc 0 = .done (some (20, 1)) := by decide
example : toyParse (toyFiles 0) = some (10, 1) := by decide
/-- …while with atomic sections the same schedule gives thread 0 its own header -/
example : (crun toyParse toyFiles toyStart [0, 1, 1, 0]).pc 0 = .done (some (10, 1)) := by decide

end PoseVerif.Props.C18
