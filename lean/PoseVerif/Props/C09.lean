import PoseVerif.Proofs.BodyOps
/-!
# C09 — missing points never influence results

Two-run (non-interference) statements about the executable model of the body operations (`Model/PoseOps`, `Model/Spatial`, `Model/Interp`).
`VisEq b₁ b₂`: both bodies are what a constructor produces (missing flags derived from the confidences), have the same frame rate and confidences, the same
shape, and the same coordinates at every point whose confidence is not 0 — the coordinates stored at missing points are arbitrary and unrelated.
The scalar type and its arithmetic are arbitrary (`Scalar S` has no laws), so "arbitrary values" includes NaN and ±∞ of binary32.
-/
namespace PoseVerif.Props.C09
open PoseVerif
variable {S : Type}

inductive VisEq (isZero : S → Bool) : PBody S → PBody S → Prop where
  | mk (fps : S) (d₁ d₂ : A4 S) (c : A3 S) : V3 isZero d₁ d₂ c → VisEq isZero (mkC isZero fps d₁ c) (mkC isZero fps d₂ c)

/-- what the relation says, index by index: same confidences and frame rate, flags derived from the confidences on both sides, and equal coordinates wherever
    the confidence is not 0 -/
theorem visEq_pointwise [Inhabited S] {isZero : S → Bool} {b₁ b₂ : PBody S} (h : VisEq isZero b₁ b₂) :
    b₁.fps = b₂.fps ∧ b₁.conf = b₂.conf ∧ C08.Consistent isZero b₁ ∧ C08.Consistent isZero b₂ ∧
    ∀ f p n, isZero (((b₁.conf.getD f []).getD p []).getD n default) = false →
      ((b₁.data.getD f []).getD p []).getD n [] = ((b₂.data.getD f []).getD p []).getD n [] := by
  cases h with
  | mk fps d₁ d₂ c hv =>
    refine ⟨rfl, rfl, rfl, rfl, ?_⟩
    intro f p n hz
    have h1 := F3.getD hv f [] [] [] F3.nil
    have h2 := F3.getD h1 p [] [] [] F3.nil
    have h3 := F3.getD h2 n [] [] default ⟨rfl, fun _ => rfl⟩
    exact h3.2 hz

/-- **Non-interference, the observation**: related bodies show the same confidences, the same missing pattern and the same zero-filled coordinates. -/
theorem visEq_view (sc : Scalar S) {isZero : S → Bool} {b₁ b₂ : PBody S} (h : VisEq isZero b₁ b₂) : view sc b₁ = view sc b₂ ∧ b₁.fps = b₂.fps := by
  cases h with
  | mk fps d₁ d₂ c hv =>
    refine ⟨?_, rfl⟩
    simp only [view, mkC_conf, mkC_missing, mkC_data, zeroFill4_derive]
    rw [hv.derive, hv.viewData sc]

/-- **Zero-filling yields exactly 0 at missing points** (and leaves observed coordinates alone), whatever was stored there. -/
theorem zeroFilled_exact [Inhabited S] (sc : Scalar S) (isZero : S → Bool) (fps : S) (d : A4 S) (c : A3 S) (hs : SameShape3 d c) (f p n : Nat) :
    (((((zeroFilledBody sc (mkC isZero fps d c)).data).getD f []).getD p []).getD n []) =
      (if isZero (((c.getD f []).getD p []).getD n default) then List.replicate (((d.getD f []).getD p []).getD n []).length sc.zero
       else ((d.getD f []).getD p []).getD n []) := by
  rw [zeroFilled_spec, mkC_data]
  unfold viewData
  have h1 := getD_zipWith' (List.zipWith (List.zipWith (vpt sc isZero))) d c hs.length_eq f [] []
  simp only [List.zipWith_nil_left] at h1
  rw [h1]
  have hs2 : F2 (fun (x : List (List S)) (y : List S) => x.length = y.length) (d.getD f []) (c.getD f []) := hs.getD F2.nil f
  have h2 := getD_zipWith' (List.zipWith (vpt sc isZero)) (d.getD f []) (c.getD f []) hs2.length_eq p [] []
  simp only [List.zipWith_nil_left] at h2
  rw [h2]
  have hs3 : ((d.getD f []).getD p []).length = ((c.getD f []).getD p []).length := hs2.getD rfl p
  have h3 := getD_zipWith' (vpt sc isZero) ((d.getD f []).getD p []) ((c.getD f []).getD p []) hs3 n [] default
  have h0 : vpt sc isZero [] default = [] := rfl
  rw [h0] at h3
  rw [h3]
  cases hz : isZero (((c.getD f []).getD p []).getD n default) with
  | false => rw [vpt_false _ _ _ _ hz]; simp
  | true => rw [vpt_true _ _ _ _ hz]; simp

def OptRel {α : Type} (R : α → α → Prop) : Option α → Option α → Prop
  | some a, some b => R a b
  | none, none => True
  | _, _ => False

/-! ### each operation maps related bodies to related (or equal) bodies, on every backend it is modelled for -/

theorem selectFrames_ni (be : Backend) [Inhabited S] {isZero : S → Bool} (ixs : List Nat) {b₁ b₂ : PBody S} (h : VisEq isZero b₁ b₂) :
    OptRel (VisEq isZero) (selectFrames be isZero ixs b₁) (selectFrames be isZero ixs b₂) := by
  cases h with
  | mk fps d₁ d₂ c hv =>
    rw [selectFrames_spec _ _ _ _ _ _ hv.sameShape.1, selectFrames_spec _ _ _ _ _ _ hv.sameShape.2]
    by_cases hg : (ixs.all (· < c.length)) = true
    · simp only [hg, if_true, OptRel]; exact VisEq.mk _ _ _ _ (hv.pickFrames ixs)
    · simp only [hg, OptRel]; trivial

theorem getPoints_ni (be : Backend) [Inhabited S] {isZero : S → Bool} (ixs : List Nat) {b₁ b₂ : PBody S} (h : VisEq isZero b₁ b₂) :
    OptRel (VisEq isZero) (getPoints be isZero ixs b₁) (getPoints be isZero ixs b₂) := by
  cases h with
  | mk fps d₁ d₂ c hv =>
    rw [getPoints_spec _ _ _ _ _ _ hv.sameShape.1, getPoints_spec _ _ _ _ _ _ hv.sameShape.2]
    by_cases hg : (ixs.all (· < ((c.headD []).headD []).length)) = true
    · simp only [hg, if_true, OptRel]; exact VisEq.mk _ _ _ _ (hv.pickPoints ixs)
    · simp only [hg, OptRel]; trivial

theorem sliceStep_ni (be : Backend) [Inhabited S] (sc : Scalar S) {isZero : S → Bool} (k : Nat) {b₁ b₂ : PBody S} (h : VisEq isZero b₁ b₂) :
    OptRel (VisEq isZero) (sliceStep be sc isZero k b₁) (sliceStep be sc isZero k b₂) := by
  cases h with
  | mk fps d₁ d₂ c hv =>
    rw [sliceStep_spec _ _ _ _ _ _ _ hv.sameShape.1, sliceStep_spec _ _ _ _ _ _ _ hv.sameShape.2]
    by_cases hk : k = 0
    · simp only [hk, if_true, OptRel]
    · simp only [hk, if_false, OptRel]; exact VisEq.mk _ _ _ _ (hv.everyNth k)

/-- zero-filling two related bodies gives the SAME body (all backends: the model's `zeroFilledBody` is the corrected `where(mask, x, 0)`) -/
theorem zeroFilled_ni (sc : Scalar S) {isZero : S → Bool} {b₁ b₂ : PBody S} (h : VisEq isZero b₁ b₂) : zeroFilledBody sc b₁ = zeroFilledBody sc b₂ := by
  cases h with
  | mk fps d₁ d₂ c hv => rw [zeroFilled_spec, zeroFilled_spec, hv.viewData sc]

theorem flip_ni (sc : Scalar S) {isZero : S → Bool} (axis : Nat) {b₁ b₂ : PBody S} (h : VisEq isZero b₁ b₂) :
    VisEq isZero (flipBody sc isZero axis b₁) (flipBody sc isZero axis b₂) := by
  cases h with
  | mk fps d₁ d₂ c hv =>
    rw [flip_spec, flip_spec]
    exact VisEq.mk _ _ _ _ (hv.map3 _ fun p q hpq => by simp [hpq])

/-- NumPy matrix product (`ma.dot` zero-fills first): related bodies give the SAME result -/
theorem matmul_ni [Inhabited S] (sc : Scalar S) {isZero : S → Bool} (m : List (List S)) {b₁ b₂ : PBody S} (h : VisEq isZero b₁ b₂) :
    matmulBody .numpy sc isZero m b₁ = matmulBody .numpy sc isZero m b₂ := by
  cases h with
  | mk fps d₁ d₂ c hv =>
    simp only [matmulBody, mkC_conf, mkC_fps, mkC_data, mkC_missing, zeroFill4_derive]
    rw [hv.derive, hv.viewData sc]

/-- bounding boxes: related bodies give the SAME boxes -/
theorem bbox_ni [Inhabited S] (sc : Scalar S) {isZero : S → Bool} (sizes : List Nat) {b₁ b₂ : PBody S} (h : VisEq isZero b₁ b₂) :
    bboxBody sc isZero sizes b₁ = bboxBody sc isZero sizes b₂ := by
  cases h with
  | mk fps d₁ d₂ c hv =>
    have hbox : ∀ (D : Nat) (pe₁ pe₂ : List (List S)) (cp : List S), F3 (PtEq isZero) pe₁ pe₂ cp →
        bboxBoxes sc sizes D pe₁ (List.zipWith (kpt isZero) pe₁ cp) = bboxBoxes sc sizes D pe₂ (List.zipWith (kpt isZero) pe₂ cp) := by
      intro D pe₁ pe₂ cp h3
      have hm : List.zipWith (kpt isZero) pe₁ cp = List.zipWith (kpt isZero) pe₂ cp := F3.zipWith_eq h3 _ _ fun _ _ _ h4 => h4.kpt
      have hcell : ∀ i dd, (if ((List.zipWith (kpt isZero) pe₂ cp).getD i []).getD dd true then none else some ((pe₁.getD i []).getD dd default)) =
          (if ((List.zipWith (kpt isZero) pe₂ cp).getD i []).getD dd true then none else some ((pe₂.getD i []).getD dd default)) := by
        intro i dd
        have hl : pe₂.length = cp.length := by rw [← h3.length_ab, h3.length_ac]
        have hg := getD_zipWith' (kpt isZero) pe₂ cp hl i [] default
        have h0 : kpt isZero [] default = [] := rfl
        rw [h0] at hg
        rw [hg]
        have hp := F3.getD h3 i [] [] default ⟨rfl, fun _ => rfl⟩
        rw [← hp.kpt]
        have := PtEq.obs hp dd
        rw [← hp.kpt] at this
        exact this
      unfold bboxBoxes
      rw [hm]
      simp only [hcell]
    unfold bboxBody
    rw [hv.numDims fps]
    simp only [mkC_conf, mkC_fps, mkC_data, mkC_missing, deriveMissing_eq]
    have e1 := F3.map_zip_eq hv (List.zipWith (List.zipWith (kpt isZero))) (List.zipWith (List.zipWith (kpt isZero)))
      (fun x : List (List (List S)) × List (List (List Bool)) => (x.1.zip x.2).map fun y => (bboxBoxes sc sizes (numDimsBody (mkC isZero fps d₂ c)) y.1 y.2).map (·.1))
      (fun x => (x.1.zip x.2).map fun y => (bboxBoxes sc sizes (numDimsBody (mkC isZero fps d₂ c)) y.1 y.2).map (·.1))
      (fun fr₁ fr₂ cf h2 => F3.map_zip_eq h2 _ _ _ _ fun pe₁ pe₂ cp h3 => by simp only [hbox _ pe₁ pe₂ cp h3])
    have e2 := F3.map_zip_eq hv (List.zipWith (List.zipWith (kpt isZero))) (List.zipWith (List.zipWith (kpt isZero)))
      (fun x : List (List (List S)) × List (List (List Bool)) => (x.1.zip x.2).map fun y => (bboxBoxes sc sizes (numDimsBody (mkC isZero fps d₂ c)) y.1 y.2).map (·.2.1))
      (fun x => (x.1.zip x.2).map fun y => (bboxBoxes sc sizes (numDimsBody (mkC isZero fps d₂ c)) y.1 y.2).map (·.2.1))
      (fun fr₁ fr₂ cf h2 => F3.map_zip_eq h2 _ _ _ _ fun pe₁ pe₂ cp h3 => by simp only [hbox _ pe₁ pe₂ cp h3])
    have e3 := F3.map_zip_eq hv (List.zipWith (List.zipWith (kpt isZero))) (List.zipWith (List.zipWith (kpt isZero)))
      (fun x : List (List (List S)) × List (List (List Bool)) => (x.1.zip x.2).map fun y => (bboxBoxes sc sizes (numDimsBody (mkC isZero fps d₂ c)) y.1 y.2).map (·.2.2))
      (fun x => (x.1.zip x.2).map fun y => (bboxBoxes sc sizes (numDimsBody (mkC isZero fps d₂ c)) y.1 y.2).map (·.2.2))
      (fun fr₁ fr₂ cf h2 => F3.map_zip_eq h2 _ _ _ _ fun pe₁ pe₂ cp h3 => by simp only [hbox _ pe₁ pe₂ cp h3])
    exact congr (congr (congrArg (mkBody Backend.numpy isZero fps) e1) e3) (congrArg some e2)

theorem focus_ni [Inhabited S] (sc : Scalar S) {isZero : S → Bool} {b₁ b₂ : PBody S} (h : VisEq isZero b₁ b₂) :
    OptRel (fun r₁ r₂ => VisEq isZero r₁.1 r₂.1 ∧ r₁.2 = r₂.2) (focusBody sc isZero b₁) (focusBody sc isZero b₂) := by
  cases h with
  | mk fps d₁ d₂ c hv =>
    unfold focusBody
    simp only [hv.numDims fps, observedCoord_eq hv fps]
    generalize numDimsBody (mkC isZero fps d₂ c) = D
    generalize List.mapM (fun d => minOpt sc (observedCoord (mkC isZero fps d₂ c) d fun _ => true)) (List.range D) = M1
    generalize List.mapM (fun d => maxOpt sc (observedCoord (mkC isZero fps d₂ c) d fun _ => true)) (List.range D) = M2
    cases M1 with
    | none => simp [OptRel]
    | some mins =>
      cases M2 with
      | none => simp [OptRel]
      | some maxs =>
        simp only [Option.bind_eq_bind, Option.bind_some]
        by_cases hD : D < 2
        · simp [hD, OptRel]
        · simp only [hD, if_false, OptRel, and_true]
          by_cases ht : (mins.any fun m => !isZero m) = true
          · simp only [ht, if_true, mkC_fps, mkC_data, mkC_conf, mkC_missing]
            have e : ∀ d : A4 S, deriveMissing isZero d c =
                deriveMissing isZero (d.map (List.map (List.map fun pt => List.mapIdx (fun dd x => sc.sub x (mins.getD dd sc.zero)) pt))) c :=
              fun d => (derive_map3 isZero _ (fun pt => by simp) d c).symm
            rw [e d₁, e d₂]
            exact VisEq.mk _ _ _ _ (hv.map3 _ fun p q hpq => by simp [hpq])
          · simp only [ht, mkC_fps, mkC_data, mkC_conf, mkC_missing]
            exact VisEq.mk _ _ _ _ hv

/-- interpolation (linear kind): related bodies give the SAME result — a track is compressed to its observed frames before anything is computed -/
theorem interpolate_ni [Inhabited S] (sc : Scalar S) {isZero : S → Bool} (newFps : S) (newFrames : Nat) {b₁ b₂ : PBody S} (h : VisEq isZero b₁ b₂) :
    interpolateBody sc isZero newFps newFrames b₁ = interpolateBody sc isZero newFps newFrames b₂ := by
  cases h with
  | mk fps d₁ d₂ c hv =>
    have hD := hv.numDims fps
    unfold numDimsBody at hD
    simp only [mkC_data] at hD
    have hrow : ∀ f p n, (if isZero (((c.getD f []).getD p []).getD n default) then none
          else some ((((d₁.getD f []).getD p []).getD n []) ++ [((c.getD f []).getD p []).getD n default])) =
        (if isZero (((c.getD f []).getD p []).getD n default) then none
          else some ((((d₂.getD f []).getD p []).getD n []) ++ [((c.getD f []).getD p []).getD n default])) := by
      intro f p n
      have h1 := F3.getD hv f [] [] [] F3.nil
      have h2 := F3.getD h1 p [] [] [] F3.nil
      have h3 := F3.getD h2 n [] [] default ⟨rfl, fun _ => rfl⟩
      cases hz : isZero (((c.getD f []).getD p []).getD n default) with
      | true => rfl
      | false => rw [h3.2 hz]
    have hrow' : ∀ f p n, (if isZero ((((mkC isZero fps d₁ c).conf.getD f []).getD p []).getD n default) then none
          else some (((((mkC isZero fps d₁ c).data.getD f []).getD p []).getD n []) ++ [(((mkC isZero fps d₁ c).conf.getD f []).getD p []).getD n default])) =
        (if isZero ((((mkC isZero fps d₂ c).conf.getD f []).getD p []).getD n default) then none
          else some (((((mkC isZero fps d₂ c).data.getD f []).getD p []).getD n []) ++ [(((mkC isZero fps d₂ c).conf.getD f []).getD p []).getD n default])) := hrow
    have hconf : (mkC isZero fps d₁ c).conf = (mkC isZero fps d₂ c).conf := rfl
    have hlen : (mkC isZero fps d₁ c).data.length = (mkC isZero fps d₂ c).data.length := hv.length_ab
    have hD' : ((((mkC isZero fps d₁ c).data.headD []).headD []).headD []).length = ((((mkC isZero fps d₂ c).data.headD []).headD []).headD []).length := hD
    unfold interpolateBody
    simp only [hrow']
    simp only [hconf, hlen, hD']

/-- **interpolation of ANY kind does not look under the mask**: whatever the interpolant (`linear`, `quadratic`, `cubic`, or the kind the code substitutes for short tracks),
    it is only ever given the observed samples of a track, so related bodies give the SAME result -/
theorem interpolateWith_ni [Inhabited S] (sc : Scalar S) {isZero : S → Bool} (kind : List S → List (List S) → S → List S) (newFps : S) (newFrames : Nat)
    {b₁ b₂ : PBody S} (h : VisEq isZero b₁ b₂) :
    interpolateBodyWith sc isZero kind newFps newFrames b₁ = interpolateBodyWith sc isZero kind newFps newFrames b₂ := by
  cases h with
  | mk fps d₁ d₂ c hv =>
    have hD := hv.numDims fps
    unfold numDimsBody at hD
    simp only [mkC_data] at hD
    have hrow : ∀ f p n, (if isZero (((c.getD f []).getD p []).getD n default) then none
          else some ((((d₁.getD f []).getD p []).getD n []) ++ [((c.getD f []).getD p []).getD n default])) =
        (if isZero (((c.getD f []).getD p []).getD n default) then none
          else some ((((d₂.getD f []).getD p []).getD n []) ++ [((c.getD f []).getD p []).getD n default])) := by
      intro f p n
      have h1 := F3.getD hv f [] [] [] F3.nil
      have h2 := F3.getD h1 p [] [] [] F3.nil
      have h3 := F3.getD h2 n [] [] default ⟨rfl, fun _ => rfl⟩
      cases hz : isZero (((c.getD f []).getD p []).getD n default) with
      | true => rfl
      | false => rw [h3.2 hz]
    have hrow' : ∀ f p n, (if isZero ((((mkC isZero fps d₁ c).conf.getD f []).getD p []).getD n default) then none
          else some (((((mkC isZero fps d₁ c).data.getD f []).getD p []).getD n []) ++ [(((mkC isZero fps d₁ c).conf.getD f []).getD p []).getD n default])) =
        (if isZero ((((mkC isZero fps d₂ c).conf.getD f []).getD p []).getD n default) then none
          else some (((((mkC isZero fps d₂ c).data.getD f []).getD p []).getD n []) ++ [(((mkC isZero fps d₂ c).conf.getD f []).getD p []).getD n default])) := hrow
    have hconf : (mkC isZero fps d₁ c).conf = (mkC isZero fps d₂ c).conf := rfl
    have hlen : (mkC isZero fps d₁ c).data.length = (mkC isZero fps d₂ c).data.length := hv.length_ab
    have hD' : ((((mkC isZero fps d₁ c).data.headD []).headD []).headD []).length = ((((mkC isZero fps d₂ c).data.headD []).headD []).headD []).length := hD
    unfold interpolateBodyWith
    simp only [hrow']
    simp only [hconf, hlen, hD']

/-! ### programs: any sequence of the modelled operations -/

inductive BOp (S : Type) where
  | selectFrames (ixs : List Nat)
  | getPoints (ixs : List Nat)
  | sliceStep (k : Nat)
  | zeroFilled
  | flip (axis : Nat)
  | matmul (m : List (List S))
  | bbox (sizes : List Nat)
  | focus
  | interpolate (newFps : S) (newFrames : Nat)
  | interpolateWith (kind : List S → List (List S) → S → List S) (newFps : S) (newFrames : Nat)    -- quadratic / cubic: the interpolant (scipy) is a parameter

def BOp.apply (be : Backend) (sc : Scalar S) (isZero : S → Bool) [Inhabited S] : BOp S → PBody S → Option (PBody S)
  | .selectFrames ixs, b => PoseVerif.selectFrames be isZero ixs b
  | .getPoints ixs, b => PoseVerif.getPoints be isZero ixs b
  | .sliceStep k, b => PoseVerif.sliceStep be sc isZero k b
  | .zeroFilled, b => some (zeroFilledBody sc b)
  | .flip axis, b => some (flipBody sc isZero axis b)
  | .matmul m, b => some (matmulBody .numpy sc isZero m b)
  | .bbox sizes, b => some (bboxBody sc isZero sizes b)
  | .focus, b => (focusBody sc isZero b).map (·.1)
  | .interpolate nf n, b => interpolateBody sc isZero nf n b
  | .interpolateWith kind nf n, b => interpolateBodyWith sc isZero kind nf n b

def runOps (be : Backend) (sc : Scalar S) (isZero : S → Bool) [Inhabited S] : List (BOp S) → PBody S → Option (PBody S)
  | [], b => some b
  | op :: ops, b => (op.apply be sc isZero b).bind (runOps be sc isZero ops)

/-- equal, or differing only under the mask -/
def Sim (isZero : S → Bool) (b₁ b₂ : PBody S) : Prop := b₁ = b₂ ∨ VisEq isZero b₁ b₂

theorem OptRel.refl_sim (isZero : S → Bool) (x : Option (PBody S)) : OptRel (Sim isZero) x x := by
  cases x with
  | none => trivial
  | some a => exact Or.inl rfl

theorem OptRel.of_eq {isZero : S → Bool} {x y : Option (PBody S)} (h : x = y) : OptRel (Sim isZero) x y := h ▸ OptRel.refl_sim isZero x

theorem OptRel.mono {α : Type} {R R' : α → α → Prop} (hr : ∀ a b, R a b → R' a b) {x y : Option α} (h : OptRel R x y) : OptRel R' x y := by
  cases x <;> cases y <;> simp_all [OptRel]

theorem apply_ni (be : Backend) (sc : Scalar S) {isZero : S → Bool} [Inhabited S] (op : BOp S) {b₁ b₂ : PBody S} (h : Sim isZero b₁ b₂) :
    OptRel (Sim isZero) (op.apply be sc isZero b₁) (op.apply be sc isZero b₂) := by
  rcases h with rfl | h
  · exact OptRel.refl_sim _ _
  · cases op with
    | selectFrames ixs => exact OptRel.mono (fun _ _ => Or.inr) (selectFrames_ni be ixs h)
    | getPoints ixs => exact OptRel.mono (fun _ _ => Or.inr) (getPoints_ni be ixs h)
    | sliceStep k => exact OptRel.mono (fun _ _ => Or.inr) (sliceStep_ni be sc k h)
    | zeroFilled => exact OptRel.of_eq (congrArg some (zeroFilled_ni sc h))
    | flip axis => exact Or.inr (flip_ni sc axis h)
    | matmul m => exact OptRel.of_eq (congrArg some (matmul_ni sc m h))
    | bbox sizes => exact OptRel.of_eq (congrArg some (bbox_ni sc sizes h))
    | focus =>
      have := focus_ni sc h
      simp only [BOp.apply]
      cases h1 : focusBody sc isZero b₁ <;> cases h2 : focusBody sc isZero b₂ <;> rw [h1, h2] at this <;> simp_all [OptRel]
      exact Or.inr this.1
    | interpolate nf n => exact OptRel.of_eq (interpolate_ni sc nf n h)
    | interpolateWith kind nf n => exact OptRel.of_eq (interpolateWith_ni sc kind nf n h)

/-- **Non-interference for every program** of modelled operations: the two runs fail together or end in bodies that are equal or differ only under the mask. -/
theorem run_ni (be : Backend) (sc : Scalar S) {isZero : S → Bool} [Inhabited S] (ops : List (BOp S)) {b₁ b₂ : PBody S} (h : Sim isZero b₁ b₂) :
    OptRel (Sim isZero) (runOps be sc isZero ops b₁) (runOps be sc isZero ops b₂) := by
  induction ops generalizing b₁ b₂ with
  | nil => exact h
  | cons op ops ih =>
    have h1 := apply_ni be sc op h
    simp only [runOps]
    cases e1 : op.apply be sc isZero b₁ <;> cases e2 : op.apply be sc isZero b₂ <;> rw [e1, e2] at h1 <;> simp_all [OptRel]

theorem sim_view (sc : Scalar S) {isZero : S → Bool} {b₁ b₂ : PBody S} (h : Sim isZero b₁ b₂) : view sc b₁ = view sc b₂ ∧ b₁.fps = b₂.fps := by
  rcases h with rfl | h
  · exact ⟨rfl, rfl⟩
  · exact visEq_view sc h

/-- the statement in the property's own terms: replace the coordinates of missing points by anything, run any program — the visible result
    (confidences, missing pattern, zero-filled coordinates, frame rate) is the same, and the two runs succeed or fail together -/
theorem program_noninterference (be : Backend) (sc : Scalar S) {isZero : S → Bool} [Inhabited S] (ops : List (BOp S)) {b₁ b₂ : PBody S}
    (h : VisEq isZero b₁ b₂) :
    match runOps be sc isZero ops b₁, runOps be sc isZero ops b₂ with
    | some r₁, some r₂ => view sc r₁ = view sc r₂ ∧ r₁.fps = r₂.fps
    | none, none => True
    | _, _ => False := by
  have := run_ni be sc ops (Or.inr h)
  cases e1 : runOps be sc isZero ops b₁ <;> cases e2 : runOps be sc isZero ops b₂ <;> rw [e1, e2] at this <;> simp_all [OptRel]
  exact sim_view sc this

/-! ### the hypotheses are satisfiable: a body with an observed and a missing point, and a copy with other values under the mask -/

def natZero (n : Nat) : Bool := n == 0

example : VisEq natZero (mkC natZero 25 [[[[1, 2], [7, 7]]]] [[[1, 0]]]) (mkC natZero 25 [[[[1, 2], [9, 3]]]] [[[1, 0]]]) :=
  VisEq.mk _ _ _ _ (F3.cons (F3.cons (F3.cons ⟨rfl, fun _ => rfl⟩ (F3.cons ⟨rfl, fun h => by simp [natZero] at h⟩ F3.nil)) F3.nil) F3.nil)

/-- every well-shaped constructor-made body is related to itself: the relation is not empty on any shape -/
theorem visEq_refl (isZero : S → Bool) (fps : S) {F P N D : Nat} {d : A4 S} {c : A3 S} (hd : Rect4 F P N D d) (hc : Rect3 F P N c) :
    VisEq isZero (mkC isZero fps d c) (mkC isZero fps d c) := VisEq.mk _ _ _ _ (V3.refl isZero hd hc)

end PoseVerif.Props.C09
