import PoseVerif.Model.Interp
import Mathlib.Algebra.Order.Field.Basic
import Mathlib.Tactic.Ring
import Mathlib.Tactic.FieldSimp
import Mathlib.Tactic.Linarith
/-!
# C14 — interpolation resamples time faithfully and never invents observations

Statements about the executable model (`Model/Interp.lean`) for the linear kind, the interpolation formula over an arbitrary linearly ordered field.
Partial: for `quadratic` / `cubic` the support / shape statements hold as well (they do not depend on the interpolant) but exactness on affine trajectories rests on
scipy's spline construction, which is not modelled.
-/
namespace PoseVerif.Props.C14
open PoseVerif

variable {K : Type} [Field K] [LinearOrder K] [IsStrictOrderedRing K]

/-- the value scipy's linear `interp1d` returns at `x` between the neighbouring observations `(xlo, ylo)`, `(xhi, yhi)` -/
def lerp (xlo xhi ylo yhi x : K) : K := (yhi - ylo) / (xhi - xlo) * (x - xlo) + ylo

/-- Any trajectory that is affine in time is reproduced exactly. -/
theorem linear_affine_exact (a b xlo xhi x : K) (h : xlo ≠ xhi) : lerp xlo xhi (a * xlo + b) (a * xhi + b) x = a * x + b := by
  have : xhi - xlo ≠ 0 := sub_ne_zero.mpr (Ne.symm h)
  unfold lerp
  field_simp
  ring

/-- At an unchanged rate the new grid is the old grid: an observed point is reproduced (the interpolant passes through the observations). -/
theorem linear_identity_at_observations (xlo xhi ylo yhi : K) (h : xlo ≠ xhi) :
    lerp xlo xhi ylo yhi xlo = ylo ∧ lerp xlo xhi ylo yhi xhi = yhi := by
  have : xhi - xlo ≠ 0 := sub_ne_zero.mpr (Ne.symm h)
  unfold lerp
  constructor
  · simp
  · field_simp; ring

/-- Linear interpolation keeps every coordinate (and the confidence) within the range of the neighbouring observations. -/
theorem linear_within_neighbours (xlo xhi ylo yhi x : K) (hlt : xlo < xhi) (h1 : xlo ≤ x) (h2 : x ≤ xhi) :
    min ylo yhi ≤ lerp xlo xhi ylo yhi x ∧ lerp xlo xhi ylo yhi x ≤ max ylo yhi := by
  have hd : 0 < xhi - xlo := sub_pos.mpr hlt
  have ht0 : 0 ≤ (x - xlo) / (xhi - xlo) := div_nonneg (sub_nonneg.mpr h1) (le_of_lt hd)
  have ht1 : (x - xlo) / (xhi - xlo) ≤ 1 := by rw [div_le_one hd]; linarith
  have hform : lerp xlo xhi ylo yhi x = ylo + (yhi - ylo) * ((x - xlo) / (xhi - xlo)) := by unfold lerp; ring
  rw [hform]
  set t := (x - xlo) / (xhi - xlo) with ht
  rcases le_total ylo yhi with h | h
  · rw [min_eq_left h, max_eq_right h]
    constructor
    · nlinarith [mul_nonneg (sub_nonneg.mpr h) ht0]
    · nlinarith [mul_nonneg (sub_nonneg.mpr h) (sub_nonneg.mpr ht1)]
  · rw [min_eq_right h, max_eq_left h]
    constructor
    · nlinarith [mul_nonneg (sub_nonneg.mpr h) (sub_nonneg.mpr ht1)]
    · nlinarith [mul_nonneg (sub_nonneg.mpr h) ht0]

end PoseVerif.Props.C14

namespace PoseVerif.Props.C14
open PoseVerif
variable {S : Type}

/-! ### the model: frame count, rate, and the support of a track (any scalar type, no arithmetic law) -/

/-- The result has the requested number of frames (`round(frames · new / old)`, computed by the caller) at the new rate. -/
theorem interp_frames_fps (sc : Scalar S) (isZero : S → Bool) [Inhabited S] (newFps : S) (newFrames : Nat) (b r : PBody S)
    (h : interpolateBody sc isZero newFps newFrames b = some r) : r.fps = newFps ∧ r.data.length = newFrames ∧ r.conf.length = newFrames ∧ b.data.length ≠ 1 := by
  unfold interpolateBody at h
  simp only [] at h
  split at h
  · cases h
  · rename_i hF
    simp only [Option.some.injEq] at h
    subst h
    exact ⟨rfl, by simp [mkBody], by simp [mkBody], hF⟩

/-- `np.linspace(0, 1, n)` starts at 0 and ends at exactly 1: the first and last frames of the old and new grids coincide. -/
theorem linspace_ends (sc : Scalar S) (n : Nat) (hn : 2 ≤ n) (h0 : sc.mul (sc.ofNat 0) (sc.div (sc.ofNat 1) (sc.ofNat (n - 1))) = sc.zero) :
    (linspace01 sc n).head? = some sc.zero ∧ (linspace01 sc n).getLast? = some (sc.ofNat 1) ∧ (linspace01 sc n).length = n := by
  unfold linspace01
  have h1 : n ≠ 1 := by omega
  simp only [if_neg h1]
  refine ⟨?_, ?_, by simp⟩
  · cases n with
    | zero => omega
    | succ m =>
      simp only [List.range_succ_eq_map, List.map_cons, List.head?_cons]
      have hm : m ≠ 0 := by omega
      simp only [Nat.add_sub_cancel] at h0
      simp [hm, h0]
  · cases n with
    | zero => omega
    | succ m =>
      rw [List.range_succ, List.map_append]
      simp

/-- **A track receives values only inside its window**: outside `[first index with new ≥ first observation, first index with new > last observation)` the result rows
    are all zero — zero confidence, hence missing — and a never observed point is zero everywhere. No interpolant is involved, so this holds for every kind. -/
theorem track_zero_outside_window (sc : Scalar S) [Inhabited S] (steps newSteps : List S) (rows : List (Option (List S))) (width i : Nat)
    (hi : i < newSteps.length) :
    let obs := (steps.zip rows).filterMap fun (s, r) => r.map fun v => (s, v)
    (obs = [] → (interpTrack sc steps newSteps rows width)[i]? = some (List.replicate width sc.zero)) ∧
    (∀ first v rest, obs = (first, v) :: rest →
      let last := ((obs.getLast?.map (·.1)).getD first)
      (i < firstIdx (fun t => leS sc first t) newSteps ∨ firstIdx (fun t => sc.lt last t) newSteps ≤ i) →
        (interpTrack sc steps newSteps rows width)[i]? = some (List.replicate width sc.zero)) := by
  intro obs
  constructor
  · intro hnil
    unfold interpTrack
    simp only [show ((steps.zip rows).filterMap fun (s, r) => r.map fun v => (s, v)) = [] from hnil]
    simp [hi]
  · intro first v rest hobs last hout
    unfold interpTrack
    simp only [show ((steps.zip rows).filterMap fun (s, r) => r.map fun v => (s, v)) = (first, v) :: rest from hobs]
    simp only [List.getElem?_mapIdx, List.getElem?_eq_getElem hi, Option.map_some]
    have hlast : ((((first, v) :: rest).getLast?.map (·.1)).getD first) = last := by simp only [last, hobs]
    rw [hlast]
    rcases hout with h | h
    · rw [if_neg (by omega)]
    · rw [if_neg (by omega)]

/-- what the window indexes mean: before the first index with `new ≥ first`, every new step is `< first` (and from the index on, for an increasing grid, `≥ first`) -/
theorem before_window (sc : Scalar S) (first : S) (newSteps : List S) (i : Nat) (hi : i < firstIdx (fun t => leS sc first t) newSteps) (hl : i < newSteps.length) :
    leS sc first newSteps[i] = false := by
  have := List.not_of_lt_findIdx (p := fun t => leS sc first t) (xs := newSteps) hi
  simpa using this

/-! ### every interpolation kind (the interpolant itself — scipy — is a parameter) -/

/-- frame count and rate, for every interpolation kind -/
theorem interp_frames_fps_any_kind (sc : Scalar S) (isZero : S → Bool) [Inhabited S] (kind : List S → List (List S) → S → List S) (newFps : S) (newFrames : Nat) (b r : PBody S)
    (h : interpolateBodyWith sc isZero kind newFps newFrames b = some r) : r.fps = newFps ∧ r.data.length = newFrames ∧ r.conf.length = newFrames ∧ b.data.length ≠ 1 := by
  unfold interpolateBodyWith at h
  simp only [] at h
  split at h
  · cases h
  · rename_i hF
    simp only [Option.some.injEq] at h
    subst h
    exact ⟨rfl, by simp [mkBody], by simp [mkBody], hF⟩

/-- **for every interpolation kind a track receives values only inside its window**: outside `[first new step ≥ first observation, first new step > last observation)`
    the rows are all zero — zero confidence, hence missing — and a never observed point is zero everywhere -/
theorem track_zero_outside_window_any_kind (sc : Scalar S) (kind : List S → List (List S) → S → List S) (steps newSteps : List S) (rows : List (Option (List S))) (width i : Nat)
    (hi : i < newSteps.length) :
    let obs := (steps.zip rows).filterMap fun (s, r) => r.map fun v => (s, v)
    (obs = [] → (interpTrackWith sc kind steps newSteps rows width)[i]? = some (List.replicate width sc.zero)) ∧
    (∀ first v rest, obs = (first, v) :: rest →
      let last := ((obs.getLast?.map (·.1)).getD first)
      (i < firstIdx (fun t => leS sc first t) newSteps ∨ firstIdx (fun t => sc.lt last t) newSteps ≤ i) →
        (interpTrackWith sc kind steps newSteps rows width)[i]? = some (List.replicate width sc.zero)) := by
  intro obs
  constructor
  · intro hnil
    unfold interpTrackWith
    simp only [show ((steps.zip rows).filterMap fun (s, r) => r.map fun v => (s, v)) = [] from hnil]
    simp [hi]
  · intro first v rest hobs last hout
    unfold interpTrackWith
    simp only [show ((steps.zip rows).filterMap fun (s, r) => r.map fun v => (s, v)) = (first, v) :: rest from hobs]
    simp only [List.getElem?_mapIdx, List.getElem?_eq_getElem hi, Option.map_some]
    have hlast : ((((first, v) :: rest).getLast?.map (·.1)).getD first) = last := by simp only [last, hobs]
    rw [hlast]
    rcases hout with h | h
    · rw [if_neg (by omega)]
    · rw [if_neg (by omega)]

/-- **inside the window the values are the interpolant's, evaluated on the observed samples only**; so an interpolant that reproduces its samples (`kind xs ys xs[j] = ys[j]`,
    what "interpolation" means for every scipy kind) makes the result the identity at every new step that coincides with an observed one — in particular at an unchanged rate -/
theorem track_identity_at_observations (sc : Scalar S) (kind : List S → List (List S) → S → List S) (steps newSteps : List S) (rows : List (Option (List S))) (width i j : Nat)
    (hi : i < newSteps.length)
    (first : S) (v : List S) (o2 : S × List S) (rest : List (S × List S))
    (hobs : ((steps.zip rows).filterMap fun (s, r) => r.map fun v => (s, v)) = (first, v) :: o2 :: rest)
    (hin : firstIdx (fun t => leS sc first t) newSteps ≤ i ∧
      i < firstIdx (fun t => sc.lt ((((first, v) :: o2 :: rest).getLast?.map (·.1)).getD first) t) newSteps)
    (hj : j < ((first, v) :: o2 :: rest).length) (ht : newSteps[i] = (((first, v) :: o2 :: rest).map (·.1))[j]'(by simpa using hj))
    (hk : ∀ (xs : List S) (ys : List (List S)) (k : Nat) (h1 : k < xs.length) (h2 : k < ys.length), kind xs ys xs[k] = ys[k]) :
    (interpTrackWith sc kind steps newSteps rows width)[i]? = some ((((first, v) :: o2 :: rest).map (·.2))[j]'(by simpa using hj)) := by
  unfold interpTrackWith
  simp only [hobs]
  simp only [List.getElem?_mapIdx, List.getElem?_eq_getElem hi, Option.map_some]
  rw [if_pos hin, ht]
  congr 1
  exact hk _ _ j (by simpa using hj) (by simpa using hj)

end PoseVerif.Props.C14
