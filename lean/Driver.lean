import PoseVerif.Driver.Codec
import PoseVerif.Model.Helpers
import PoseVerif.Model.Cache
import PoseVerif.Model.Concurrent
import PoseVerif.Model.JS
import PoseVerif.Driver.Masked
import PoseVerif.Driver.Collate
import PoseVerif.Driver.PoseOps
import PoseVerif.Driver.Represent
import PoseVerif.Model.Frames
import PoseVerif.Model.OpenPose
import PoseVerif.Model.Select
import PoseVerif.Model.SpecEnc
/-!
`posedriver`: one JSON request per input line, one JSON answer per output line.
Runs the executable definitions of the model (the same ones the theorems are about).
-/
open Lean PoseVerif PoseVerif.Driver

def failJ : Json := Json.mkObj [("ok", Json.bool false)]

/-- cache state named by a request: `null`/absent = empty, `{"hex": file}` = the state after reading that file's header -/
def cacheOf (j : Json) : R (Option CacheEntry) :=
  match j.getObjVal? "cache" with
  | .ok (Json.null) => pure none
  | .ok c => do
    let b ← getHex c "hex"
    pure ((runBR (rdHeader none) b 0).bind (·.1.2))
  | .error _ => pure none

def hmutOf (j : Json) : R HMut := do
  let kind ← j.getObjValAs? String "kind"
  match kind with
  | "width" => pure (.setWidth (← getNat j "v"))
  | "dims" => pure (.setDims (← getNat j "w") (← getNat j "h") (← getNat j "d"))
  | "rename_comp" => pure (.renameComp (← getNat j "i") (← getStrHex j "s"))
  | "rename_point" => pure (.renamePoint (← getNat j "i") (← getNat j "j") (← getStrHex j "s"))
  | "set_limb" => pure (.setLimb (← getNat j "i") (← getNat j "k") (← getNat j "a") (← getNat j "b"))
  | "append_limb" => pure (.appendLimb (← getNat j "i") (← getNat j "a") (← getNat j "b"))
  | "set_color" => pure (.setColor (← getNat j "i") (← getNat j "k") (← getNat j "r") (← getNat j "g") (← getNat j "b"))
  | "pop_comp" => pure .popComp
  | k => throw s!"unknown mutation {k}"

/-- C06: run a history on the store machine; bodies are computed by the codec model from the header the store hands out -/
def runHistory (j : Json) : R Json := do
  let files ← (← (← j.getObjVal? "files").getArr?).toList.mapM fun f => do
    match fromHex (← f.getStr?) with
    | some b => pure b
    | none => throw "bad hex"
  let steps ← (← j.getObjVal? "steps").getArr?
  let mut st : Store Header := Store.empty
  let mut handles : Array Nat := #[]
  let mut out : Array Json := #[]
  for step in steps do
    match step.getObjVal? "read" with
    | .ok fi =>
      let file := files.getD (← fi.getNat?) []
      let w ← match step.getObjVal? "window" with
        | .ok v => windowOfJson v
        | .error _ => pure {}
      let reader ← (step.getObjValAs? String "reader" <|> pure "bytes")
      -- the cache entry as the codec model sees it
      let ce : Option CacheEntry := match st.cache with
        | some (key, e, a) => (st.heap a).map fun h => { key, endOff := e, header := h }
        | none => none
      let (st', r) := st.exec parseHeader (.read file)
      let res := if reader == "stream" then (readSource file ce w).map (·.1) else (readBytes file ce w).map (·.1)
      match r, res with
      | some addr, some p =>
        let hv := st'.heap addr
        if hv != some p.header then throw "model inconsistent: store and codec disagree on the header"
        st := st'
        handles := handles.push addr
        out := out.push (Json.mkObj [("handle", natJ (handles.size - 1)), ("pose", poseToJson p)])
      | some addr, none =>
        -- the header decoded (and was cached) but the body read failed: the call raises, the caller gets nothing
        st := { st' with handed := st'.handed.erase addr }
        out := out.push (Json.mkObj [("handle", Json.null)])
      | none, _ => out := out.push (Json.mkObj [("handle", Json.null)])
    | .error _ =>
    match step.getObjVal? "mutate" with
    | .ok hn =>
      let addr := handles.getD (← hn.getNat?) 0
      let m ← hmutOf step
      st := (st.exec parseHeader (.mutate addr m.apply)).1
      out := out.push (Json.mkObj [("handle", Json.null)])
    | .error _ =>
    match step.getObjVal? "copy" with
    | .ok hn =>
      let addr := handles.getD (← hn.getNat?) 0
      let (st', r) := st.exec parseHeader (.copy addr)
      st := st'
      match r with
      | some a => handles := handles.push a; out := out.push (Json.mkObj [("handle", natJ (handles.size - 1))])
      | none => out := out.push (Json.mkObj [("handle", Json.null)])
    | .error _ =>
      st := (st.exec parseHeader .clear).1
      out := out.push (Json.mkObj [("handle", Json.null)])
  let final := handles.map fun a => match st.heap a with
    | some h => headerToJson h
    | none => Json.null
  pure (Json.mkObj [("ok", Json.bool true), ("steps", Json.arr out), ("final", Json.arr final)])

/-- C18: run the cache protocol on a schedule of atomic sections; per thread: the header it ends with (or null) -/
def runSchedule (j : Json) : R Json := do
  let files ← (← (← j.getObjVal? "files").getArr?).toList.mapM fun f => do
    match fromHex (← f.getStr?) with
    | some b => pure b
    | none => throw "bad hex"
  let cache0 : Option (CEntry Header) ← match j.getObjVal? "cache0" with
    | .ok (Json.str h) => match (fromHex h).bind parseHeader with
      | some (hd, e) => pure (some ⟨((fromHex h).getD []).take e, e, hd⟩)
      | none => pure none
    | _ => pure none
  let sched ← getNatArr (← j.getObjVal? "sched")
  let s := crun parseHeader (fun t => files.getD t []) { cache := cache0, pc := fun _ => .start } sched
  let out := (List.range files.length).map fun t => match s.pc t with
    | .done (some (h, e)) => Json.mkObj [("state", "done"), ("header", headerToJson h), ("end", natJ e)]
    | .done none => Json.mkObj [("state", "done"), ("header", Json.null)]
    | .parsed _ _ => Json.mkObj [("state", "parsed")]
    | .matched => Json.mkObj [("state", "matched")]
    | .start => Json.mkObj [("state", "start")]
  pure (Json.mkObj [("ok", Json.bool true), ("threads", Json.arr out.toArray)])

/-- the reference encoders of `Model/SpecEnc.lean` (written from docs/specs): `{"version": "v02" | "v01" | "v00", …}` → the file's bytes -/
def runSpecFile (j : Json) : R Json := do
  let v ← j.getObjValAs? String "version"
  let bytes ← match v with
    | "v02" => do
      let p ← poseOfJson (← j.getObjVal? "pose")
      pure (specFile p (UInt32.ofNat (← getNat j "fps_bits")))
    | "v01" => do
      let p ← poseOfJson (← j.getObjVal? "pose")
      pure (specFileV01 p (← getNat j "fps") (← getNat j "frames_field"))
    | "v00" => do
      let h ← headerOfJson (← j.getObjVal? "header")
      let frames ← (← (← j.getObjVal? "frames").getArr?).toList.mapM fun fr => do
        (← fr.getArr?).toList.mapM fun pj => do
          let blocks ← (← (← pj.getObjVal? "blocks").getArr?).toList.mapM fun b => do pure ((← getNatArr b).map UInt32.ofNat)
          pure ({ id := ← getNat pj "id", blocks } : PersonV00)
      pure (specFileV00 h (← getNat j "fps") frames)
    | _ => throw s!"unknown version {v}"
  pure (Json.mkObj [("ok", Json.bool true), ("hex", Json.str (toHex bytes))])

def handle (j : Json) : R Json := do
  let op ← j.getObjValAs? String "op"
  match op with
  | "spec_file" => runSpecFile j
  | "write" =>
    let p ← poseOfJson (← j.getObjVal? "pose")
    match p.write? with
    | some b => pure (Json.mkObj [("ok", Json.bool true), ("hex", Json.str (toHex b))])
    | none => pure failJ
  | "read" =>
    let b ← getHex j "hex"
    let w ← match j.getObjVal? "window" with
      | .ok v => windowOfJson v
      | .error _ => pure {}
    let cache ← cacheOf j
    let reader ← (j.getObjValAs? String "reader" <|> pure "bytes")
    if reader == "stream" then
      match readSource b cache w with
      | some (p, _, pulled) => pure (Json.mkObj [("ok", Json.bool true), ("pose", poseToJson p), ("pulled", natJ pulled)])
      | none => pure failJ
    else
      match readBytes b cache w with
      | some (p, _) => pure (Json.mkObj [("ok", Json.bool true), ("pose", poseToJson p)])
      | none => pure failJ
  | "version_class" =>
    -- both version switches on float32 patterns `lo … hi` (inclusive): Python's (`versionClass`) and JavaScript's (`jsVersionClass`), one letter each per pattern
    let lo ← getNat j "lo"
    let hi ← getNat j "hi"
    let name (c : VersionClass) : Char := match c with | .v00 => '0' | .v01 => '1' | .v02 => '2' | .other => 'x'
    let pats := (List.range (hi + 1 - lo)).map fun i => UInt32.ofNat (lo + i)
    pure (Json.mkObj [("ok", Json.bool true), ("py", Json.str (String.ofList (pats.map fun w => name (versionClass w)))),
      ("js", Json.str (String.ofList (pats.map fun w => name (jsVersionClass w))))])
  | "js_parse" =>
    let b ← getHex j "hex"
    let cls := match (runBR rdHeaderRaw b 0) with
      | some (h, _) => jsVersionClass h.version
      | none => .other
    let clsName := match cls with | .v00 => "v00" | .v01 => "v01" | .v02 => "v02" | .other => "other"
    if cls == .v00 then
      match jsParseV00 b with
      | some (h, e, fps, frames) =>
        pure (Json.mkObj [("ok", Json.bool true), ("class", Json.str clsName), ("header", headerToJson h), ("headerLength", natJ e), ("fps", natJ fps),
          ("frames", Json.arr (frames.toArray.map fun fr => Json.arr (fr.toArray.map fun pr => Json.mkObj [("id", natJ pr.id),
            ("comps", Json.arr (pr.comps.toArray.map fun c => Json.arr (c.toArray.map fun pt => f32Arr pt)))])))])
      | none => pure (Json.mkObj [("ok", Json.bool false), ("class", Json.str clsName)])
    else
    match jsParse jsVersionClass b with
    | some (h, e, body) => pure (Json.mkObj [("ok", Json.bool true), ("class", Json.str clsName), ("header", headerToJson h), ("headerLength", natJ e),
        ("fps", fpsToJson body.fps), ("frames", natJ body.frames), ("people", natJ body.people), ("points", natJ body.points), ("dims", natJ body.dims),
        ("data", f32Arr body.data), ("conf", f32Arr body.conf)])
    | none => pure (Json.mkObj [("ok", Json.bool false), ("class", Json.str clsName)])
  | "masked_prog" => runMaskedProg j
  | "collate" => runCollate j
  | "body_ops" => runBodyOps j
  | "represent" => runRepresent j
  | "rep_layout" => runRepLayout j
  | "rep_forward" => runRepForward j
  | "select" =>
    let comps ← (← (← j.getObjVal? "components").getArr?).toList.mapM compOfJson
    let hexList (v : Json) : R (List String) := do
      (← v.getArr?).toList.mapM fun x => do
        match (fromHex (← x.getStr?)).bind stringOfBytes? with
        | some s => pure s
        | none => throw "bad name"
    let request ← hexList (← j.getObjVal? "request")
    let points : Option (List (String × List String)) ← match j.getObjVal? "points" with
      | .ok Json.null => pure none
      | .ok v => do
        let ps ← (← v.getArr?).toList.mapM fun kv => do
          let a ← kv.getArr?
          match (fromHex (← a[0]!.getStr?)).bind stringOfBytes? with
          | some k => pure (k, ← hexList a[1]!)
          | none => throw "bad key"
        pure (some ps)
      | .error _ => pure none
    let res := if (j.getObjValAs? String "mode").toOption == some "remove" then removeComponents comps request points else getComponents comps request points
    match res with
    | some (cs, ixs) => pure (Json.mkObj [("ok", Json.bool true), ("components", Json.arr (cs.toArray.map compToJson)), ("indexes", Json.arr (ixs.toArray.map natJ))])
    | none => pure failJ
  | "reduce_holistic" =>
    let comps ← (← (← j.getObjVal? "components").getArr?).toList.mapM compOfJson
    let hexList (v : Json) : R (List String) := do
      (← v.getArr?).toList.mapM fun x => do
        match (fromHex (← x.getStr?)).bind stringOfBytes? with
        | some s => pure s
        | none => throw "bad name"
    let ignore ← hexList (← j.getObjVal? "ignore")
    let contours ← hexList (← j.getObjVal? "contours")
    match reduceHolistic ignore contours comps with
    | some (cs, ixs) => pure (Json.mkObj [("ok", Json.bool true), ("components", Json.arr (cs.toArray.map compToJson)), ("indexes", Json.arr (ixs.toArray.map natJ))])
    | none => pure failJ
  | "frame_id" =>
    let name ← getStrHex j "name"
    match frameId name with
    | some n => pure (Json.mkObj [("ok", Json.bool true), ("frame", natJ n)])
    | none => pure failJ
  | "openpose" =>
    let frames ← (← (← j.getObjVal? "frames").getArr?).toList.mapM fun fr => do
      let people ← (← (← fr.getObjVal? "people").getArr?).toList.mapM fun person => do
        (← person.getArr?).toList.mapM fun comp => do (← comp.getArr?).toList.mapM f64OfJson
      pure ({ id := ← getNat fr "id", people } : OPFrame Float)
    let nf := (j.getObjValAs? Nat "num_frames").toOption
    match loadOpenpose floatScalar floatIsZero (← getNatArr (← j.getObjVal? "sizes")) frames (← f64OfJson (← j.getObjVal? "fps")) nf with
    | some b => pure (Json.mkObj [("ok", Json.bool true), ("body", pbodyToJson b)])
    | none => pure failJ
  | "dropout" =>
    let n ← getNat j "n"
    let dropped ← getNatArr (← j.getObjVal? "dropped")
    pure (Json.mkObj [("ok", Json.bool true), ("kept", Json.arr ((dropoutKept n dropped).toArray.map natJ)),
                      ("count", natJ (dropCount (← getNat j "k_req") (← getNat j "k_cap")))])
  | "tf_dropout" =>
    let n ← getNat j "n"
    let shuffle ← getNatArr (← j.getObjVal? "shuffle")
    pure (Json.mkObj [("ok", Json.bool true), ("kept", Json.arr ((tfDropoutKept n (← getNat j "m") shuffle).toArray.map natJ))])
  | "history" => runHistory j
  | "schedule" => runSchedule j
  | _ => throw s!"unknown op {op}"

partial def loop (hin hout : IO.FS.Stream) : IO Unit := do
  let line ← hin.getLine
  if line.isEmpty then return ()
  let ans : Json := match Json.parse line with
    | .error e => Json.mkObj [("driver_error", Json.str e)]
    | .ok j =>
      let id := (j.getObjVal? "id").toOption.getD Json.null
      match handle j with
      | .ok r => r.setObjVal! "id" id
      | .error e => Json.mkObj [("driver_error", Json.str e), ("id", id)]
  hout.putStrLn ans.compress
  loop hin hout

def main : IO Unit := do
  let hin ← IO.getStdin
  let hout ← IO.getStdout
  loop hin hout
  hout.flush
