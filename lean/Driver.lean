import PoseVerif.Driver.Codec
/-!
`posedriver`: one JSON request per input line, one JSON answer per output line.
Runs the executable definitions of the model (the same ones the theorems are about).
-/
open Lean PoseVerif PoseVerif.Driver

def failJ : Json := Json.mkObj [("ok", Json.bool false)]

/-- cache state named by a request: `null`/absent = empty, `{"hex": file}` = the state after reading that file's header -/
def cacheOf (j : Json) : R (Option CacheEntry) :=
  match j.getObjVal? "cache" with
  | .ok (Json.null) => pure none
  | .ok c => do
    let b ← getHex c "hex"
    pure ((runBR (rdHeader none) b 0).bind (·.1.2))
  | .error _ => pure none

def handle (j : Json) : R Json := do
  let op ← j.getObjValAs? String "op"
  match op with
  | "write" =>
    let p ← poseOfJson (← j.getObjVal? "pose")
    match p.write? with
    | some b => pure (Json.mkObj [("ok", Json.bool true), ("hex", Json.str (toHex b))])
    | none => pure failJ
  | "read" =>
    let b ← getHex j "hex"
    let w ← match j.getObjVal? "window" with
      | .ok v => windowOfJson v
      | .error _ => pure {}
    let cache ← cacheOf j
    let reader ← (j.getObjValAs? String "reader" <|> pure "bytes")
    if reader == "stream" then
      match readSource b cache w with
      | some (p, _, pulled) => pure (Json.mkObj [("ok", Json.bool true), ("pose", poseToJson p), ("pulled", natJ pulled)])
      | none => pure failJ
    else
      match readBytes b cache w with
      | some (p, _) => pure (Json.mkObj [("ok", Json.bool true), ("pose", poseToJson p)])
      | none => pure failJ
  | _ => throw s!"unknown op {op}"

partial def loop (hin hout : IO.FS.Stream) : IO Unit := do
  let line ← hin.getLine
  if line.isEmpty then return ()
  let ans : Json := match Json.parse line with
    | .error e => Json.mkObj [("driver_error", Json.str e)]
    | .ok j =>
      let id := (j.getObjVal? "id").toOption.getD Json.null
      match handle j with
      | .ok r => r.setObjVal! "id" id
      | .error e => Json.mkObj [("driver_error", Json.str e), ("id", id)]
  hout.putStrLn ans.compress
  loop hin hout

def main : IO Unit := do
  let hin ← IO.getStdin
  let hout ← IO.getStdout
  loop hin hout
  hout.flush
