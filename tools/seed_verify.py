#!/usr/bin/env python3
"""Confirm a seeded fault (scratch worktree) and run the checks against it.
usage: seed_verify.py <worktree> <seed subdir> <seed id> <property> <check ids...>
 1. demo.py passes on the clean worktree, 2. fails with the patch, 3. the 128 baseline tests still pass with the patch,
 4. the patch is applied to /repo, each check's quick command is run, /repo is restored, 5. everything is recorded in /verif/seeded/<id>/meta.json"""
import json, os, shutil, subprocess, sys, time
wt, sub, sid, prop, *checks = sys.argv[1:]
src = os.path.join(wt, "seeded", sub)
env = dict(os.environ, PYTHONPATH=os.path.join(wt, "src/python"), PYTHONDONTWRITEBYTECODE="1", TF_CPP_MIN_LOG_LEVEL="3")
def sh(cmd, cwd=None, env=None, timeout=3000):
    return subprocess.run(cmd, shell=True, cwd=cwd, env=env, capture_output=True, text=True, timeout=timeout)
meta = {"id": sid, "property": prop, "source": f"sub-agent in scratch worktree {wt} (given only the property text)", "when": time.strftime("%Y-%m-%d %H:%M")}
sh("git checkout -- .", cwd=wt)
r0 = sh("/venv/bin/python -W ignore demo.py", cwd=src, env=env)
meta["demo_clean_exit"] = r0.returncode
ap = sh(f"git apply {src}/patch.diff", cwd=wt)
meta["patch_applies"] = ap.returncode == 0
r1 = sh("/venv/bin/python -W ignore demo.py", cwd=src, env=env)
meta["demo_patched_exit"] = r1.returncode
meta["demo_patched_output"] = (r1.stdout + r1.stderr)[-600:]
if os.environ.get("SKIP_SUITE") != "1":
    t = sh("/venv/bin/python -m pytest -q -p no:cacheprovider --timeout=900 --continue-on-collection-errors -rA src/python 2>&1 | grep -E '^PASSED' | sort", cwd=wt, env=dict(os.environ, PYTHONDONTWRITEBYTECODE="1"))
    passed = set()
    for l in t.stdout.splitlines():
        f, *rest = l.split()[1].split("::")
        passed.add(f[:-3].replace("/", ".") + ("." if len(rest) > 1 else "::") + "::".join(rest))
    base = set(json.load(open("/root/.vp/BASELINE.json"))["stable_pass"])
    meta["suite_passing_with_patch"] = len(passed & base)
    meta["suite_lost"] = sorted(base - passed)
sh("git checkout -- .", cwd=wt)
meta["confirmed"] = bool(meta["demo_clean_exit"] == 0 and meta["patch_applies"] and meta["demo_patched_exit"] != 0 and not meta.get("suite_lost"))
# run the checks against it
results = {}
# SEED_VERIFY_IN_WT=1: run the checks against the scratch worktree itself (POSE_REPO) instead of applying the patch to /repo — several seeds can then be verified at once
in_wt = os.environ.get("SEED_VERIFY_IN_WT") == "1"
target = wt if in_wt else "/repo"
cenv = dict(os.environ, POSE_REPO=wt, VERIF_EVIDENCE_DIR=f"/tmp/sv-evidence-{sid}") if in_wt else None
if meta["confirmed"]:
    assert sh("git status --porcelain --untracked-files=no", cwd=target).stdout.strip() == "", target + " is not clean"
    a = sh(f"git apply {src}/patch.diff", cwd=target)
    if a.returncode != 0:        # /repo has moved on (fix: commits) since the worktree was cut: apply with fuzz
        a = sh(f"patch -p1 -F3 --no-backup-if-mismatch < {src}/patch.diff", cwd=target)
        results["applied_with_fuzz"] = a.returncode == 0
    try:
        if a.returncode != 0:
            results["apply_error"] = (a.stdout + a.stderr)[-300:]
        for c in checks:
            r = sh(f"./check {c} --tier quick", cwd="/verif", env=cenv)
            lines = [l for l in r.stdout.splitlines() if l.startswith(("VIOLATION", "KNOWN-FINDING", "INFRA"))]
            results[c] = {"exit": r.returncode, "lines": lines[:4]}
            for l in lines:
                if l.startswith("VIOLATION"):
                    rp = l.split("replay=")[1].split()[0]
                    try:
                        d = json.load(open(os.path.join("/verif", rp)))
                        results[c].setdefault("clauses", []).append(d.get("clause"))
                    except Exception:
                        pass
    finally:
        if in_wt:
            sh("git checkout -- .", cwd=wt); sh(f"rm -rf /tmp/sv-evidence-{sid}")
        else:
            sh("git checkout -- . && git clean -fdq -e nothing src", cwd="/repo")
            sh("rm -f /verif/replays/*.json")
meta["checks"] = results
meta["detected_by"] = sorted(c for c, r in results.items() if isinstance(r, dict) and r.get("exit") == 1)
dst = os.path.join("/verif/seeded", sid)
os.makedirs(dst, exist_ok=True)
for f in ("patch.diff", "demo.py", "notes.md"):
    if os.path.exists(os.path.join(src, f)):
        shutil.copy(os.path.join(src, f), os.path.join(dst, f))
json.dump(meta, open(os.path.join(dst, "meta.json"), "w"), indent=1)
print(json.dumps({k: meta[k] for k in ("id", "confirmed", "demo_clean_exit", "demo_patched_exit", "suite_lost", "detected_by") if k in meta}))
print(json.dumps(results)[:1500])
