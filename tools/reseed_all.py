"""Regression of the mutation corpus: apply every stored seeded fault to /repo in turn, run the quick check of its own property, restore /repo.
usage: python3 tools/reseed_all.py [ids…]   → prints one line per seed; exit 1 if a seed is no longer detected. Never run concurrently with other checks."""
import glob, json, os, subprocess, sys
V = "/verif"
ids = sys.argv[1:] or sorted(os.path.basename(os.path.dirname(p)) for p in glob.glob(V + "/seeded/*/patch.diff"))
missed = []
for sid in ids:
    prop = sid.split("-")[0]
    patch = f"{V}/seeded/{sid}/patch.diff"
    a = subprocess.run(["git", "-C", "/repo", "apply", patch], capture_output=True, text=True)
    if a.returncode != 0:        # /repo has moved on (fix: commits) since the patch was cut: apply with fuzz, never with --3way (it stages the result)
        a = subprocess.run("patch -p1 -F3 --no-backup-if-mismatch < " + patch, shell=True, cwd="/repo", capture_output=True, text=True)
    if a.returncode != 0:
        print(sid, "PATCH DOES NOT APPLY", a.stderr[:200]); missed.append(sid); continue
    try:
        r = subprocess.run([V + "/check", prop], capture_output=True, text=True, cwd=V, timeout=3600)
        hit = any(l.startswith("VIOLATION") for l in r.stdout.splitlines())
    finally:
        subprocess.run(["git", "-C", "/repo", "reset", "-q"]); subprocess.run(["git", "-C", "/repo", "checkout", "HEAD", "--", "."])
        subprocess.run("find /repo/src -name '*.rej' -delete -o -name '*.orig' -delete", shell=True)      # leftovers of a patch that did not apply
        left = subprocess.run(["git", "-C", "/repo", "status", "--porcelain", "--untracked-files=no"], capture_output=True, text=True).stdout.strip()
        if left:
            print("!! /repo not restored:", left); sys.exit(2)
    print(sid, "detected" if hit else "MISSED", flush=True)
    if not hit: missed.append(sid)
print("missed:", missed)
sys.exit(1 if missed else 0)
