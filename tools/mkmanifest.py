#!/usr/bin/env python3
"""Regenerates MANIFEST.json from the table below (kept here so that the manifest is always schema-valid)."""
import json, os
HERE = os.path.dirname(os.path.dirname(os.path.abspath(__file__)))
props = [json.loads(l) for l in open(os.path.join(HERE, "properties.jsonl"))]

NOTE_COMMON = ("Trusted: Lean 4.33 kernel and the axioms propext/Classical.choice/Quot.sound (audited per theorem on every run); the hand-written model is tied "
               "to /repo's working tree by a differential correspondence run (harness/), which is sampling, not proof; CPython struct/UTF-8/BytesIO and "
               "numpy/torch/tensorflow/scipy primitives are modelled, not verified.")

CLAIMED = {
 "C01": dict(
   text="Theorems over the Lean model of Pose.write/Pose.read (Props/C01.lean): every successful write of a well-shaped pose decodes to the same pose "
        "(header equal in all fields, float32 bit patterns, missing ⇔ confidence ±0), writes succeed exactly on representable poses and fail otherwise; "
        "unbounded in names, components, points, frames. The model is compared byte-for-byte and field-for-field with the implementation on generated poses, "
        "and the round-trip oracle is evaluated on the implementation alone.",
   technique="Lean 4 proof (structural induction over the codec) + differential correspondence model↔implementation",
   design="§5 C01"),
 "C02": dict(
   text="Theorems (Props/C02.lean): whatever Pose.write produces equals specFile, a total encoder written in Lean from docs/specs/v0.2.md field by field (write_layout); "
        "every file of that encoder for a representable well-shaped pose is read to exactly its content (read_of_reference); re-writing what a full read returned from a file whose "
        "version field is the 0.2 pattern reproduces the consumed bytes (rewrite_identity, write_read_write). The implementation's bytes are compared with the Lean encoder and with a second "
        "independent Python encoder, and reference files are read and re-written by the implementation.",
   technique="Lean 4 proof (encoder/decoder inverse in both directions) + differential correspondence against two independent reference encoders",
   design="§5 C02"),
 "C03": dict(
   text="Theorems (Props/C03.lean): a windowed BufferReader read is the slice [start, min(end,total)) of the full read (window_eq_slice); the BytesIOReader state machine returns whatever the "
        "BufferReader returns for every reader program, file size and cache state (stream_eq_bytes, a simulation proof with the alignment invariant); cache neutrality; rejected windows are the failing "
        "program for either reader; bytes pulled ≤ prefetch + bytes decoded. The time→frame map is abstract in the theorems (evaluated with Float in the driver). Model and implementation are compared on "
        "value AND bytes pulled for every generated (file, window, source, cache).",
   technique="Lean 4 proof (simulation between two reader state machines, induction over reader programs) + differential correspondence incl. bytes pulled",
   design="§5 C03"),
 "C04": dict(
   text="Theorems (Props/C04.lean): every file of the v0.1 reference encoder (written from docs/specs/v0.1.md) decodes to exactly its content whatever its 16-bit frame-count field says "
        "(readV01_enc: the count comes from the payload size, so > 65 535 frames are decoded in full); the decoded pose is written as v0.2 and reads back to the same content (legacy_rewrite_v01); "
        "a header whose version is not ±0 / within the 3-decimal band of 0.1 / 0.2 makes the body decoder the failing program for either reader (other_version_refused); v0.0 ignores windows; "
        "v0.1 windows are slices; stream = bytes for every version. Partial: the v0.0 decoder is modelled and compared with the implementation on reference-encoded files, but no reference-decode theorem is proved for it.",
   technique="Lean 4 proof (v0.1 codec, version dispatch) + differential correspondence on reference-encoded v0.0/v0.1 files",
   design="§5 C04"),
 "C05": dict(
   text="Theorems (Props/C05.lean): parser.ts is transcribed into Lean (Model/JS.lean: header grammar, saveOffset, info fields, the two flat Float32Arrays, the lazy frame index arithmetic); for every file the Python model "
        "accepts as v0.2 (and v0.1 whose 16-bit field holds the frame count) the JavaScript model returns the same header, header length, fps, frame and people counts and the same flat arrays (js_agrees_v02 / js_agrees_v01), "
        "and the JavaScript flat index is Python's row-major index (js_index). The REAL parser.ts of the working tree is type-stripped and run under Node 22 on every generated file and compared with Pose.read and with the model. "
        "Partial: the version switch (binary64 Math.round against Python's round(v, 3)) is a hypothesis of the theorems (hcls) — it is evaluated, through both real readers and both model classifiers, on every float32 pattern around the four edges of the two version bands, the only place where the switches could part; v0.0 bodies are compared on the implementation only, binary-parser is a stand-in.",
   technique="Lean 4 proof (extensional equality of two decoders over the same bytes) + three-way differential run: real parser.ts under Node vs Pose.read vs Lean model",
   design="§5 C05"),
 "C06": dict(
   text="Theorems (Props/C06.lean) over an explicit object store (header memo with its own object, objects handed to callers, calls read / in-place mutate through any held reference / copy / clear): "
        "after ANY history a read hands out a fresh object holding exactly the decode of its own bytes, or raises exactly when they do not decode (read_pure, by the invariant 'the memo's object is private and holds the decode of its key' "
        "and prefix determinism of the header decoder, itself a theorem of the codec model); results are pairwise distinct objects and none is the memo's (results_disjoint); an edit changes no other object (mutation_local); "
        "the whole pose is the same with an empty cache and with any entry an earlier read stored (pose_independent_of_cache, both directions). The store machine is compared with the implementation on generated histories "
        "(values after every call, final headers), and aliasing is checked on the implementation with id()/np.shares_memory.",
   technique="Lean 4 proof (invariant by induction over operation histories on an explicit store) + differential correspondence on histories + aliasing oracle",
   design="§5 C06"),
 "C07": dict(
   text="Theorems (Props/C07.lean): no proper prefix of a written file is accepted by a full read (truncated_rejected, from extension/consumption of blind skip-free reader programs), "
        "also through the stream route without a window (truncated_rejected_stream_full); appended bytes do not change the result (trailing_ignored). Windowed stream clause: whenever a windowed stream read of a "
        "prefix returns, the read of the intact bytes with that window and the same cache state returns too, with exactly the same pose and cache entry — for EVERY prefix, window and consistent state of the header cache "
        "(truncated_window_stream_complete; so where the intact read raises — conflicting bounds, a start at or beyond the last frame — the prefix read raises; truncated_window_stream_any_cache, truncated_window_stream_slice; "
        "cache_stays_ok: the cache hypothesis is the invariant reads maintain) — by sr_agree, a two-run agreement between the stream reader on a prefix and the buffer reader on any extension for every core program that does "
        "not ask how much data follows, header_agree (hit / miss case analysis with prefix determinism of the header decoder), and the window checks seeing the intact file's counts. "
        "Every cut offset of small files and every field boundary ±1 of large ones is read through both readers and three cache states.",
   technique="Lean 4 proof (generic truncation argument over reader programs; two-run agreement of the stream reader on a prefix with the buffer reader on the file) + exhaustive cut-offset enumeration on the implementation",
   design="§5 C07"),
 "C08": dict(
   text="Theorems (Props/C08.lean) over a nested-array model of the three body classes: the three constructors produce the same body from the same data (backends_agree); torch()/tensorflow() conversion of a consistent NumPy body is the identity "
        "(convert_eq); the flags of point (f,p,n) are isZero(conf f p n) once per coordinate — missing in ALL dimensions exactly when the confidence is 0 (missing_all_dims_iff_conf_zero); point selection, frame selection and stepping give the same "
        "body on every backend although NumPy re-derives and unites the mask while torch/tf keep it (getPoints_agree, selectFrames_agree, sliceStep_agree, via 'selection commutes with mask derivation'); the matrix product of zero-filled (NumPy) "
        "and raw (torch/tf) coordinates has the same visible result (matmul_point_view, no arithmetic law used). Files are read into all three classes (tensorflow in a child process), converted, pushed through random sequences of the shared "
        "operations and compared pairwise and with the model.",
   technique="Lean 4 proof (selection/element-wise commutation over nested arrays, parametric scalar) + three-backend differential run",
   design="§5 C08"),
 "C09": dict(
   text="Theorems (Props/C09.lean) about the executable model of the body operations, for an arbitrary scalar type with arbitrary arithmetic (so the garbage may be NaN or ±inf): VisEq relates two constructor-made bodies with the same "
        "confidences and frame rate that agree at every point whose confidence is not 0 (visEq_pointwise); related bodies show the same confidences, missing pattern and zero-filled coordinates (visEq_view); zero-filling yields exactly 0 at "
        "every missing point and leaves the others alone (zeroFilled_exact); frame / point selection, stepping and flip map related bodies to related bodies on every backend, and zero-fill, the NumPy matrix product, bounding boxes and "
        "linear interpolation map them to the SAME body (…_ni); focus to related bodies and the same header dimensions (focus_ni); the two-point and the distribution normaliser compute the same statistics and related results "
        "(Props/C09Norm: normalize_ni, normalizeDistribution_ni); hence for EVERY program over these eleven operations the two runs fail together or end with the same visible "
        "result (run_ni, runN_ni, program_noninterference); the feature representations — distance, X/Y angle, inner angle, point-line distance, the points block and the whole assembled representation — return the same values for any "
        "two fillings of the missing points (Props/C09Repr: rep2_ni, rep3_ni, pointsRepRows_ni, forward_ni). augmentation is the matrix product with a matrix that depends on the random draws only, so matmul_ni (any matrix) covers it; write → read gives the same visible result for two bodies that differ under the mask only (Props/C09Ser: serialise_ni). interpolation of every kind is covered with the interpolant as a parameter (interpolateWith_ni, also an instruction of the program theorem). Partial: the 3-D normaliser (known finding K4) is not in the Lean instruction set — they are decided on the implementation by the "
        "two-run check (two fillings of the missing slots incl. NaN / ±inf / ±3e38, same operation sequence, visible results compared exactly after every step, NumPy / torch / tensorflow). Known finding K4 (3-D normaliser).",
   technique="Lean 4 proof (relational two-run invariant over nested arrays, induction over programs) + differential two-run execution on three backends and model correspondence",
   design="§5 C09"),
 "C10": dict(
   text="Theorem (Props/C10.lean) run_refines: for EVERY straight-line program over the modelled API (indexing, slicing, gather, permute/transpose, squeeze, unsqueeze, reshape, split parts, cat, stack, elementwise ops with masked and "
        "scalar operands, pow, square, sqrt, strict sum, tf mean/variance/std, square matmul, fix_nan), every shape, every mask, every scalar type and every interpretation of the arithmetic (no law assumed: holds with NaN/±inf), "
        "the pair interpreter (operations applied to value tensor and mask separately, as the Python classes do) equals the reference interpreter on ONE tensor of (value, valid) pairs, keeps shapes identical and fails exactly when the reference fails; "
        "structural operations are one polymorphic pick (pick_zip); elementwise / strict-sum / mean validity rules and exact zero-fill as corollaries. Non-square matmul is excluded and proved misaligned on a witness (known finding K1). "
        "Random programs (masked and plain operands) are executed on the real torch and tensorflow classes and compared step by step with the model; afterwards every register is dumped again: no operation may have changed an earlier value.",
   technique="Lean 4 proof (refinement between two interpreters, induction over programs, parametric in the scalar type) + differential correspondence on random programs, both frameworks",
   design="§5 C10"),
 "C11": dict(
   text="Theorems (Props/C11.lean) over a transcription of get_components / remove_components / get_point_index: the selected component carries exactly the requested names, the i-th selected point is the source point "
        "offset + index-of-name, every requested name exists, colours and format are kept (select_component); the limbs of the selection connect the same NAMED points as before and lie within the new point list (select_limbs_names); end to end on the pose (getComponents_values, removeComponents_values, from getPoints_cell): point i of the selected body carries, for every frame and person, the coordinates, confidence and missing flags of source point ixs[i], ixs being the index list the header-level theorems characterise name by name; "
        "get_point_index of the first component with a name is its running offset plus the index of the point (pointIndex_go); removing components / points is by definition selecting the complement, absent names ignored "
        "(remove_eq_select_complement, remove_points_eq_select). The real calls are run on generated multi-component poses and compared with the model and, point by point and limb by limb by NAME, with the source; the known-format helpers "
        "(hide / remove legs, wrist correction, holistic reduction) are checked on OpenPose and Holistic-shaped headers on the implementation (only the named points change) and against their Lean model (Model/Helpers.lean: hidePoints_other / hidePoints_hidden — hiding changes exactly the named points, which become zeros with confidence 0 and, as numpy does for a plain assignment, unflagged; mem_namedIndexes; correctWrist_other / correctWrist_at — only the body wrist changes, taking the hand wrist's values where that is observed; remove-legs and holistic reduction are the selection calls of the theorems above). Partial: which names belong to which format are the library's tables, read by the harness.",
   technique="Lean 4 proof (list/index reasoning over the header transcription) + differential correspondence and name-level oracle",
   design="§5 C11"),
 "C12": dict(
   text="Theorems (Props/C12.lean) about the executable pose-level model (Model/PoseSeq: header components + NumPy body, thirteen operations incl. get / remove components, bbox, focus, interpolation, selection, stepping, flip, "
        "matrix product / augmentation, backend conversion, and `transform` = any shape-preserving recomputation of the coordinates, which is what the normalisers are under their preconditions): PInv = every format has D + 1 letters, "
        "coordinates (F, P, header points, D), confidences (F, P, points), missing flags = the ones derived from confidence 0 in all D coordinates (wf_pointwise). step_inv: every operation whose stated precondition holds maps a "
        "well-formed pose to a well-formed pose; run_inv: so does every sequence, of any length; fits_of_inv / serialisable: a well-formed NumPy pose has the shape its header describes, so C01's write → read theorem applies. "
        "Supporting lemmas: bbox_inv (the box mask is the derived mask because a consistent point is missing in all coordinates at once), interpolate_inv, matmul_inv, getComponents_shape (index list matches the new header, "
        "stays inside the old one, formats kept). normalize, normalize_distribution and unnormalize_distribution are such transforms whenever they return (normalize_is_transform, normalizeDistribution_is_transform, unnormalizeDistribution_is_transform), hence keep a pose well-formed (normalize_wf, …). interpolation of every kind (interpolant = parameter that keeps the row width) keeps a pose well-formed (interpolate_any_kind_wf). Partial: the dropouts' draws and torch / tensorflow bodies are decided on the implementation: "
        "random precondition-respecting operation sequences with the invariant evaluated after every step on all three backends and write → read at the end.",
   technique="Lean 4 proof (invariant by induction over operation sequences on nested arrays; refinement to C01 for serialisation) + randomised sequence execution with invariant checks and model correspondence",
   design="§5 C12"),
 "C13": dict(
   text="Theorems (Props/C13.lean) about the executable model of the three normalisers instantiated with the real numbers and Real.sqrt. Two-point normaliser, on a well-formed body of any shape: confidences and missing "
        "pattern unchanged, mean midpoint of the reference points at the origin, mean reference distance = requested scale (normalize_post); translating and uniformly scaling the input (a > 0) gives exactly the same body "
        "(normalize_similarity_invariant) — via the lift lemma cellVals_mapCoords (a coordinate-wise map of a well-formed body maps every observed column value and nothing else). Distribution normaliser: per column mean 0 "
        "(distribution_mean_zero), deviation 1 (distribution_std_one), unnormalize restores (unnormalize_inverse), and on the body for axes (0, 1): every column with a non-zero deviation has mean 0 and deviation 1 afterwards, confidences and mask unchanged (normalizeDistribution_post). 3-D plane / line normaliser, per frame and person: first line point at the origin (line_p1_at_origin); plane "
        "points at z = 0 when the first line point is a plane point (plane_at_z0_partial — the unconditional statement is known finding K3); the line on the negative-Y half-plane with 3-D length = size (line_on_negative_y); "
        "translation and uniform-scale invariance (normalize3D_translation_invariant, normalize3D_scale_invariant); every frame and person is normalised on its own (normalize3DBody_independent); and the NEGATION of rotation invariance with an exact witness (not_rotation_invariant: z = −1/15 vs −1/25 "
        "after a 90° turn about Z) — known finding K2, replayed on the implementation on every run. Partial: float rounding; arctan2 / Rotation.from_euler modelled by cos θ = −v_y / r, sin θ = v_x / r (the model agrees with scipy "
        "on every generated case); (the distribution theorems are lifted to the body for both axis choices: normalizeDistribution_post for axes (0, 1), normalizeDistribution_post_all for axes (0, 1, 2)). All three normalisers are run on NumPy (and tensorflow for the first two) poses and "
        "compared with the postconditions, the invariances and the model.",
   technique="Lean 4 proof over ℝ (Mathlib: ring / field_simp / Real.sqrt lemmas; list-level lift lemmas) incl. a proved counter-example + differential correspondence and postcondition oracle on the implementation",
   design="§5 C13"),
 "C14": dict(
   text="Theorems (Props/C14.lean), the model's linear interpolation instantiated with an arbitrary linearly ordered field: the resampled clip has the requested number of frames — round(F * new_fps / fps), a binary64 rounding evaluated by the caller and checked on the implementation — at the new rate (interp_frames_fps) whose instants run from 0 to 1 "
        "(linspace_ends); a track is missing at every new instant outside [first observation, last observation] (track_zero_outside_window, before_window); inside, the value equals the observation at an observed instant "
        "(linear_identity_at_observations), lies between the two neighbouring observations (linear_within_neighbours) and reproduces an affine track exactly (linear_affine_exact). For EVERY interpolation kind — the interpolant (scipy's interp1d on the observed samples, the kind chosen by the code from their number) is an uninterpreted parameter of the model (interpolateBodyWith) — "
        "frame count and rate (interp_frames_fps_any_kind), missing outside the track's own window and for never observed points (track_zero_outside_window_any_kind), and, for an interpolant that reproduces its samples, the identity at every new instant that "
        "coincides with an observed one (track_identity_at_observations). Partial: float rounding; that scipy's quadratic / cubic interpolants reproduce their samples and affine data is assumed of scipy and checked on the implementation "
        "(identity at the same rate, affine exactness up to 1e-6). "
        "Interpolation is run on NumPy poses with dyadic data and per-point observation windows, and the linear kind compared with the model at 1e-9.",
   technique="Lean 4 proof over an ordered field (Mathlib linarith / field_simp on the model's lerp) + differential correspondence and clause oracle on the implementation",
   design="§5 C14"),
 "C15": dict(
   text="Theorems (Props/C15.lean), the executable model instantiated with an arbitrary linearly ordered field: the box sides computed by the model's min / max folds are attained by observed values, contain every observed value and are "
        "contained in every box that does, and the box is missing exactly when nothing is observed (bbox_tight); translating by the minimum puts the smallest observed coordinate at exactly 0 and keeps the extent (focus_min_zero); flip negates "
        "exactly that coordinate and is its own inverse (flip_neg_only, flip_involutive, flipBody_spec); the matrix product is the identity for the identity matrix and linear, for 2-D and 3-D points (matmul_id_2/3, matmul_linear_2/3); the "
        "augmentation matrix is the identity when no deviation is positive (augment_id_when_std_zero); confidences are untouched; focus() on the whole body (focusBody_spec, over a field with floor / ceil): coordinates translated by the per-axis minima, header "
        "dimensions = the extents rounded up — the least whole numbers not below them (ceil_extent_spec) —, depth 0 for 2-D, confidences and missing pattern untouched. Partial: float rounding and numpy's cos / sin are outside the theorems. All transforms are run on NumPy poses "
        "with dyadic data (exact arithmetic), the random draws of augment2d replayed, and compared with the algebraic clauses and with the model.",
   technique="Lean 4 proof over an ordered field (Mathlib ring / linarith on the model's folds) + differential correspondence with exact dyadic data",
   design="§5 C15"),
 "C16": dict(
   text="Theorems (Props/C16.lean): frame selection returns exactly frames ixs[0], ixs[1], … (select_exact); stepping by k ≥ 1 returns frames 0, k, 2k, … all below the frame count and fps / k (step_exact); for EVERY draw the generic dropout's kept list "
        "is strictly increasing, within range, the exact complement of the draw (dropout_kept), of length n − k (dropout_length), drops nothing at fraction 0, drops ⌊n·p⌋ frames i.e. within one frame of n·p (dropout_count), and keeps ≥ 1 frame because the cap "
        "int(0.99 n) < n (dropout_keeps_one); the TensorFlow variant (sort of the first m of any shuffle) is strictly increasing, in range, of length min m n and non-empty (tf_dropout_kept, tf_dropout_keeps_one). All variants incl. the uniform / normal "
        "wrappers and frame selections (incl. the empty request, all frames, reversed) are run on NumPy, torch and tensorflow bodies over many seeds and compared with fancy-indexing by the returned indexes and with the model.",
   technique="Lean 4 proof (for every draw: list combinatorics, sortedness of mergeSort) + differential run over seeds on three backends",
   design="§5 C16"),
 "C17": dict(
   text="Theorems (Props/C17.lean) about the element model of the masked arithmetic (value + validity flag; sum valid when all summands are; zero_filled; fix_nan) and of the four representations transcribed from "
        "torch/representation: for ANY scalar type, the distance, X/Y angle, inner angle and point–line representations are exactly 0 as soon as one input point is missing (…_missing_zero) and the inner angle, the "
        "point–line distance and the argument of atan are never NaN (…_not_nan); over the reals with valid inputs of any dimension they equal the textbook formulas: ‖p1 − p2‖ (distance_formula), atan(Δy / Δx) "
        "(angle_formula), acos of the normalised dot product at p2 (innerAngle_formula), and Heron's height = √(|u|²|w|² − (u·w)²) / |w|, the distance from p1 to the line p2p3 (pointLine_formula). Assembled "
        "representation: the limb index lists are the header's limbs shifted by component offsets, in header order, and stay inside the header (limbPoints_spec, limbPoints_in_range); the joint triples are exactly the "
        "chains (mem_trianglePoints); the advertised size is the number of rows (output_size_is_row_count); row point·dims + dim of a points block is that coordinate, zero-filled (pointsRep_row); group_embeds is the "
        "(embed, batch, len) → (batch, len, embed) transposition (groupEmbeds_entry). End to end (poseRepresentation = the whole __call__, for every header with a chain, every module selection, batch and length): the output is (batch, len, advertised size) "
        "(forward_shape) and its entries are, in order, the zero-filled coordinates of every point per points module, each limb module on the two ends of each limb, each triple module on each chain (forward_point_entry, forward_limb_entry, forward_triple_entry). Partial: IEEE overflow / rounding (±inf, acos of 1 + ε) and atan / acos themselves are outside the theorems — decided on the "
        "implementation: torch, tensorflow and numpy modules against binary64 formulas, each other and the model; exact zeros and finiteness under masks with coincident / vertical / collinear tuples; assembled "
        "layouts for random headers block by block, and the whole output tensor entry by entry against the model.",
   technique="Lean 4 proof (element-level masked semantics for any scalar; Mathlib real analysis for the formulas incl. Heron; list combinatorics for the layout) + differential correspondence on three backends",
   design="§5 C17"),
 "C18": dict(
   text="Theorem (Props/C18.lean): for the cache protocol with atomic lookup+copy and update sections (the code's locked regions), ANY number of threads and ANY schedule, a finished thread holds exactly the "
        "decode of its own file (reads_isolated, by the invariant 'the cache is empty or a consistent snapshot of one file's header'), plus progress; the protocol with a separate compare and fetch is proved to violate "
        "isolation on a concrete 4-step schedule. The real Pose.read runs in real threads under a deterministic line-level scheduler (sys.settrace, cooperative locks): all single-preemption schedules, every double-preemption schedule whose two points lie inside the cache code and a sample of the others, "
        "over file pairs × sources × initial cache; each thread's result is compared with its single-threaded result and with the protocol model run on the observed order of cache sections. "
        "Partial: preemption inside a source line / C extension is not explored.",
   technique="Lean 4 proof (invariant over arbitrary schedules of a small-step protocol model) + systematic schedule exploration of the real code with a preemption bound",
   design="§5 C18"),
 "C19": dict(
   text="Theorems (Props/C19.lean): every cell (frame f, person p, keypoint k) of the loaded pose holds the x, y, confidence of opCell and is missing exactly when that confidence is 0 (openpose_cell); a present keypoint k of component c is "
        "(numbers[3k], numbers[3k+1], numbers[3k+2]) found at the component's own header offset = sum of the earlier components' point counts (openpose_present, via locate_offset / triplesOf_get), whatever the earlier lists contain; a list that is empty or stops early "
        "leaves the rest of that component zero, hence missing, and shifts nothing (openpose_short_component); absent frames / people are all zeros hence missing (openpose_absent); frame count = requested or max id + 1, every present id is below it, fps recorded (loaded_meta); get_frame_id modelled as a matcher with re.findall semantics (leftmost, non-overlapping, greedy; last match), proved to return the LAST digit group before '_keypoints.json' for an arbitrary prefix whose last character is not a digit "
        "and at whose end no complete '_keypoints?json' literal ends (frame_id_last_group; frame_id_documented: no condition at all for the documented scheme [ARBITRARY]_[ID]_keypoints.json); the excluded name shape is exhibited (example) and compared with Python's re like every other name. The real load_openpose / load_openpose_directory are run on dictionaries with a distinct value per cell, shuffled and foreign keys, empty component lists. The loops themselves (keypoint_id running over the components, the inner enumerate writing triples) are modelled literally (loopPerson) and proved to leave, cell by cell, what the closed form reads off the lists, for every person whose lists are not longer than their components (loop_getD, loopPerson_cell, opCell_eq_loop; an overlong list spills into the next component, shown by example, and is refused by the model).",
   technique="Lean 4 proof (list indexing of the component offsets; strong induction over the remaining prefix for the file-name matcher) + cell-by-cell differential run",
   design="§5 C19"),
 "C20": dict(
   text="Theorems (Props/C20.lean), parametric in the element type (values are moved, never computed with): for every batch of examples with a common trailing shape, pad_tensors returns values and validity of shape "
        "(batch, longest length, trailing…); row e is example e's values / validity unchanged, followed by the pad value / False (collate_masked: prefix and padding clauses for every example and every length combination incl. "
        "equal lengths, 1 and 0); integers become one tensor in order, strings pass through in order, masked fields inside dictionaries / tuples are collated by the same function. The real zero_pad_collator is run on generated "
        "nested batches and compared with the model and row by row with the examples.",
   technique="Lean 4 proof (list-level model of pad/stack, parametric in the element type) + differential correspondence on nested batches",
   design="§5 C20"),
}

checks = []
for p in props:
    pid = p["id"]
    if pid in CLAIMED:
        c = CLAIMED[pid]
        checks.append({
            "property_id": pid,
            "quick_cmd": f"./check {pid} --tier quick",
            "thorough_cmd": f"./check {pid} --tier thorough",
            "evidence_file": f"evidence/{pid}.json",
            "replay_cmd_template": f"./check {pid} --replay {{path}}",
            "engine": "lean4-model+correspondence",
            "level_claimed": {"category": "proof", "text": c["text"], "design_ref": c["design"]},
            "level_note": c.get("note", NOTE_COMMON),
            "technique": c["technique"],
        })
manifest = {
    "version": 1,
    "setup_cmd": "cd lean && lake build PoseVerif posedriver",
    "hooks": {"guard": "POSE_FORMAT_VERIF",
              "enable": "no hooks are needed: every check imports /repo/src/python from the working tree in a fresh interpreter (PYTHONPATH), nothing is compiled",
              "baseline_off_cmd": "cd /repo && /venv/bin/python -m pytest -ra -q -p no:cacheprovider --timeout=900 --continue-on-collection-errors",
              "source_commits": [], "add_only": True},
    "engines": [{"name": "lean4-model+correspondence", "path": "lean/", "serves_properties": sorted(CLAIMED),
                 "kind_free_text": "Lean 4 model (lean/PoseVerif/Model) with kernel-checked property theorems (lean/PoseVerif/Props), axiom audit, "
                                   "and a Python differential harness (harness/) running the real pose_format against the compiled model driver"}],
    "checks": checks,
    "not_applicable": [{"property_id": p["id"], "reason": "not claimed yet: its theorems/correspondence are still under construction in this build (see DESIGN.md §5, §10)"}
                       for p in props if p["id"] not in CLAIMED],
    "notes": "Single entry point ./check <id> [--tier quick|thorough] [--replay file]; exit 0 held / 1 VIOLATION / 2 infrastructure. See DESIGN.md.",
}
json.dump(manifest, open(os.path.join(HERE, "MANIFEST.json"), "w"), indent=1)
print("claimed:", sorted(CLAIMED))
