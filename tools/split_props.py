"""Split a Props file into Proofs/<id>Lemmas.lean (everything except the kept property theorems) and Props/<id>.lean (the kept theorems + examples).
usage: split_props.py C13 name1 name2 …   (names of theorems to KEEP in the Props file; `example`s after the last section are kept too)"""
import re, sys
pid, keep = sys.argv[1], set(sys.argv[2:])
src_path = f"/verif/lean/PoseVerif/Props/{pid}.lean"
src = open(src_path).read()
lines = src.split("\n")
# header: imports + module docstring
i = 0
imports = []
while i < len(lines) and (lines[i].startswith("import ") or not lines[i].strip()):
    if lines[i].startswith("import "): imports.append(lines[i])
    i += 1
doc = []
if lines[i].startswith("/-!"):
    while True:
        doc.append(lines[i]); i += 1
        if doc[-1].rstrip().endswith("-/"): break
body = lines[i:]
# blocks: start at a line that begins a declaration (possibly preceded by docstring / attribute lines)
starts = re.compile(r"^(theorem|def|noncomputable def|abbrev|noncomputable abbrev|instance|noncomputable instance|example|structure|inductive|@\[simp\] theorem|open Classical in|private theorem)\b")
blocks, cur = [], []
def flush():
    global cur
    if cur: blocks.append(cur); cur = []
k = 0
pending_doc = []
while k < len(body):
    ln = body[k]
    if ln.startswith("/--"):
        flush()
        pending_doc = []
        while True:
            pending_doc.append(body[k]); 
            if body[k].rstrip().endswith("-/"): break
            k += 1
        k += 1
        continue
    if starts.match(ln):
        flush()
        cur = pending_doc + [ln]; pending_doc = []
        k += 1
        # "open Classical in" is followed by the actual decl on the next lines
        continue
    if re.match(r"^(namespace|end|section|variable|open|/-!|set_option)", ln):
        flush()
        if pending_doc: blocks.append(pending_doc); pending_doc = []
        blk = [ln]
        if ln.startswith("/-!") and not ln.rstrip().endswith("-/"):
            while not body[k].rstrip().endswith("-/"):
                k += 1; blk.append(body[k])
        blocks.append(blk); k += 1
        continue
    cur.append(ln); k += 1
flush()
def name_of(b):
    for ln in b:
        m = re.match(r"^(?:@\[simp\] )?(?:private )?(?:noncomputable )?(theorem|def|abbrev|instance|structure|inductive)\s+([A-Za-z0-9_.'₁₂]+)", ln)
        if m: return m.group(1), m.group(2)
        if ln.startswith("example"): return "example", None
    return None, None
lem, props = [], []
for b in blocks:
    kind, nm = name_of(b)
    if kind is None:                      # structure lines go to both
        lem.append(b)
        if re.match(r"^(namespace|end PoseVerif|variable|open)", b[0]): props.append(b)
        continue
    if (kind == "theorem" and nm in keep) or kind == "example":
        props.append(b)
    else:
        lem.append(b)
def render(bl): 
    out = []
    for b in bl:
        out += b
    text = "\n".join(out)
    return re.sub(r"\n{3,}", "\n\n", text).strip() + "\n"
lemfile = f"/verif/lean/PoseVerif/Proofs/{pid}Lemmas.lean"
open(lemfile, "w").write("\n".join(imports) + f"\n/-! Definitions and helper lemmas for `Props/{pid}.lean` (the property theorems themselves are kept apart, in that file). -/\n" + render(lem))
open(src_path, "w").write(f"import PoseVerif.Proofs.{pid}Lemmas\n" + "\n".join(doc) + "\n" + render(props))
print("kept:", [name_of(b)[1] for b in props if name_of(b)[0] == "theorem"])
