import re
p='/verif/DESIGN.md'
s=open(p).read()

# ---- status header
s=s.replace("Status of this document: written before any framework code, after reading the",
"Status of this document: §1–§10 were written before any framework code (design); **§0 \"As built\" and the rewritten\n§5 entries for C09, C12, C13, C14, C17 describe what was actually built** and supersede the plan where they differ.\nThe design part was written after reading the",1)

asbuilt = r'''
---------------------------------------------------------------------------

## 0. As built (read this first)

All twenty properties are claimed in `MANIFEST.json`; `not_applicable` is empty. Every check is
`./check Cxx [--tier quick|thorough] [--replay FILE]` (= `python -m harness.main`), which on every run

1. runs `lake build` on the property's Lean modules and the compiled driver (`lean/`, library `PoseVerif`, executable `posedriver`);
   a build failure is a *broken proof obligation*: reported as `VIOLATION … no-failing-input-found` after the failing-input search of §8
   found nothing on the implementation, never silently ignored;
2. scans the Lean sources for `sorry | admit | axiom | native_decide | bv_decide | implemented_by | unsafe | maxHeartbeats 0`
   (comments stripped) and runs `Audit.lean` (`Lean.collectAxioms`) over every theorem of the property's `Props` module: the axioms must be
   ⊆ {`propext`, `Classical.choice`, `Quot.sound`}; the thorough tier additionally re-checks the `.olean`s with `leanchecker`;
3. runs the correspondence + oracle harness (`harness/props/cXX.py`) against `/repo`'s **working tree** (`PYTHONPATH=/repo/src/python`),
   pipes the same cases to the compiled Lean model (`posedriver`, JSON lines) and compares;
   an exception that escapes from the library under test where the harness expected a result is itself a violation (its replay carries the traceback and the
   harness call), not an infrastructure error — only failures of the harness's own code, of the Lean build tools or of a child interpreter exit with status 2;
4. classifies violations against `known_findings.json`, writes `evidence/Cxx.json` (theorem list with axioms, case counts, input
   distribution, samples, assumptions, trusted base) and `replays/…json`, prints `VIOLATION property=… replay=…` lines, exits 0 / 1 (2 = infrastructure).

### 0.1 What is proved, per property (Lean files under `lean/PoseVerif/`)

| id | model (`Model/`) | property theorems (`Props/Cxx.lean`) | decided on the implementation only (partial) |
|----|------------------|--------------------------------------|-----------------------------------------------|
| C01 | Prim, Prog, Header, Body | `read_write`, `write_ok_decodes`, `write_injective` (two poses written to the same bytes are the same pose up to `canon`), `write_fails_loudly`, `write_dim_mismatch`, `missing_iff_conf_zero` | numpy dtype narrowing, `struct` |
| C02 | same, SpecEnc (`specFile`) | `write_layout`, `read_of_reference`, `rewrite_identity`, `write_read_write` | the Lean reference encoder is compared byte for byte with an independent Python one (`harness/refenc.py`) |
| C03 | Stream, Body (windows) | `window_eq_slice`, `stream_eq_bytes`, `stream_window_eq_slice`, `cache_neutral`, `consumption_bound`, `adjacent_windows_tile` (frames [s, s+n) then [s+n, s+n+m) are exactly [s, s+n+m): nothing lost, duplicated or reordered at a window boundary), `slice_data_of_slice` (a window of a window), rejection lemmas | time→frame rounding evaluated at `Float` |
| C04 | Body (v0.0 / v0.1), SpecEnc (`specFileV01`, `specFileV00`) | `readV01_enc`, `legacy_rewrite_v01`, `readV00_enc`, `legacy_rewrite_v00`, `other_version_refused`, `v00_window_ignored`, `v01_window_eq_slice`, `legacy_stream_eq_bytes` | numpy `column_stack` / `ma.concatenate` error behaviour on irregular v0.0 files |
| C05 | JS | `js_index`, `js_conf_index`, `jsDims_eq`, `js_agrees_v02`, `js_agrees_v01`, `js_v00_enc`, `js_agrees_v00` | `binary-parser` stand-in; the version switch (`hcls`) evaluated on every pattern around the band edges |
| C06 | Cache | `read_pure`, `read_value_is_decode` + `read_same_after_any_two_histories` (history independence as one equation: after any history the value read = the pure decode of the bytes), `results_disjoint`, `mutation_local`, `other_calls_preserve`, `pose_independent_of_cache` | md5 idealised injective |
| C07 | Prog (`Rel`/`Blind`/`SkipFree`), Stream | `truncated_rejected`, `truncated_rejected_stream_full`, `trailing_ignored(_any)`, `trailing_ignored_window` (appended bytes change nothing under any valid window either), `truncated_window_stream(_slice)` (via `Proofs/StreamRev.sr_agree`), `truncated_window_stream_complete`, `truncated_window_stream_any_cache`, `cache_stays_ok` (every cache state, and "raises when the intact read raises": `Proofs/StreamWarm.lean`) | — |
| C08 | PoseOps | `backends_agree`, `convert_eq`, `missing_all_dims_iff_conf_zero`, `getPoints/selectFrames/sliceStep_agree`, `matmul_point_view` | torch / tf primitives |
| C09 | PoseOps, Spatial, Interp, Normalize | `visEq_view`, `zeroFilled_exact`, `…_ni` for nine operations, `run_ni`, `program_noninterference`; `Props/C09Norm`: `normalize_ni`, `normalizeDistribution_ni`, `runN_ni`; `Props/C09Repr`: `rep2_ni`, `rep3_ni`, `pointsRepRows_ni`, `forward_ni` (the assembled representation); `Props/C09Ser`: `serialise_ni` (write → read); `interpolateWith_ni` (every interpolation kind) | 3-D normaliser (K4): two-run execution |
| C10 | Tensor, Masked | `run_refines`, `shapes_identical`, `elementwise_valid_iff`, `strict_sum_valid_iff`, `mean_valid_iff`, `zero_filled_exact`, `run_append_only`, `run_keeps_register` (no operation changes an earlier register) | — |
| C11 | Select | `select_component(_all)`, `pointIndex_go`, `remove_eq_select_complement`, `remove_points_eq_select`, `select_limbs_names`; helpers (`Model/Helpers`): `hidePoints_other`, `hidePoints_hidden`, `mem_namedIndexes`, `correctWrist_other`, `correctWrist_at`, `reduce_holistic` as the selection its two name tables describe (`Model/Helpers.reduceHolistic`): `isInfix_iff`, `reduceKeep_iff`, `reduceKeep_sublist`, `reduceHolistic_is_selection`, `reduceHolistic_no_body`; values: `getPoints_cell`, `getComponents_values`, `removeComponents_values` | the name tables of the known formats |
| C12 | PoseSeq (+ all body models) | `step_inv`, `run_inv`, `wf_pointwise`, `fits_of_inv`, `serialisable`, `normalize_is_transform`, `normalizeDistribution_is_transform`, `unnormalizeDistribution_is_transform`, `normalize_wf` …, `interpolate_any_kind_wf` | dropouts' draws, torch / tf bodies |
| C13 | Normalize, Normalize3D | `normalize_post`, `normalize_similarity_invariant`, `normalize_twice` (normalising a pose normalised before = normalising the original), `distribution_mean_zero`, `distribution_std_one`, `unnormalize_inverse`, `normalizeDistribution_post`, `normalizeDistribution_post_all`, `line_p1_at_origin`, `plane_at_z0_partial`, `line_on_negative_y`, `normalize3D_translation_invariant`, `normalize3D_scale_invariant`, `normalize3DBody_independent`, `not_rotation_invariant` | float rounding; `arctan2` / `from_euler` by algebraic meaning; body-level distribution theorem for axes (0,1,2) |
| C14 | Interp | `linear_affine_exact`, `linear_identity_at_observations`, `linear_within_neighbours`, `interp_frames_fps`, `linspace_ends`, `track_zero_outside_window`, `before_window`; every kind (interpolant = parameter): `interp_frames_fps_any_kind`, `track_zero_outside_window_any_kind`, `track_identity_at_observations` | that scipy's quadratic / cubic interpolants reproduce samples and affine data |
| C15 | Spatial, PoseOps | `bbox_tight`, `focus_min_zero`, `flip_neg_only`, `flip_involutive`, `flip_comm` (flips of two axes commute; also run on the implementation), `flip_length` — all for axes the pose has: beyond `dims` the code raises and the total model is not tied to it, so nothing is claimed there, `matmul_id_2/3`, `matmul_linear_2/3`, `augment_id_when_std_zero`, `focusBody_spec`, `ceil_extent_spec` | cos / sin of the drawn angle |
| C16 | Frames, PoseOps | `select_exact`, `select_empty`, `step_exact`, frame slices `body[a:b:step]` (`Model/PoseOps.pySliceIndexes` = Python's `slice.indices`): `mem_pySliceIndexes`, `pySliceIndexes_lt`, `pySliceIndexes_sorted`, `slice_exact`, `slice_unbounded_is_step`, `slice_all_is_identity` (`body[:]` names every frame in order), `slice_step_count` (a step keeps ⌈n/k⌉ frames), `slice_empty`, `dropout_kept`, `dropout_length`, `dropout_count`, `dropout_keeps_one`, `tf_dropout_kept`, `tf_dropout_keeps_one` | the random draws themselves |
| C17 | Represent | `…_missing_zero` (4), `…_not_nan` (3), `distance_formula`, `angle_formula`, `innerAngle_formula`, `pointLine_formula` (Heron), `limbPoints_spec`, `limbPoints_in_range`, `mem_trianglePoints`, `output_size_is_row_count`, `pointsRep_row`, `groupEmbeds_entry`; end to end (`poseRepresentation`): `forward_shape`, `forward_point_entry`, `forward_limb_entry`, `forward_triple_entry` | IEEE overflow / `acos(1+ε)`; `atan`, `acos` |
| C18 | Concurrent | `step_inv`, `reads_isolated(_gen)`, `finishes_after_two_steps` | preemption inside a source line |
| C19 | OpenPose | `locate_offset`, `openpose_cell`, `openpose_absent`, `openpose_present`, `openpose_short_component`, `loaded_meta`, `frame_id_conforming`, `frame_id_last_group`, `frame_id_documented`, `loopPerson_cell`, `opCell_eq_loop` (the literal loops = the closed form) | JSON parsing |
| C20 | Collate | `collate_masked`, `collate_ints`, `collate_strings`, `collate_masked_field`, `padData_*` (length, prefix, padding; `padData_full`: an example already of the longest length is returned as it is, lifted to whole batches by `padMasked_equal_lengths` — the code's "nothing to pad" shortcut is the plain stack and equals the general rule; `padData_isPrefix`, `padData_mem`: nothing reordered, nothing invented), `field_order`, `collate_dict_order` (fields are matched by key, whatever order an example lists them in) | torch `stack` / `cat` |

Helper lemmas live in `Proofs/` (codec algebra `Codec*.lean`, stream simulation `Stream*.lean`, windows `Window*.lean`, nested-array toolkit
`Rect.lean` (`RectL`, three-way relation `F3`), body invariants `BodyInv/BodyOps/BodyRect.lean`, header shapes `HeaderShape.lean`, the lift
lemma `NormLift.lean`), and per-property `Proofs/CxxLemmas.lean` (C08, C10, C13, C17, C19, C20: the definitions and helper lemmas that used to sit
next to the property theorems were moved there with `tools/split_props.py`, so that `Props/Cxx.lean` holds the property theorems and their
non-vacuity examples only). C09, C11, C12, C15, C16 keep their statement vocabulary (`VisEq`, `BOp`, `PInv`, `Pre`, …) and a handful of
three-line helpers in the `Props` file on purpose: the definitions are part of what the theorems say. `Props/C09Norm.lean` extends C09's
program theorem to the two normalisers (`normalize_ni`, `normalizeDistribution_ni`, `runN_ni`), `Props/C09Repr.lean` to the feature representations and their assembly.
The reference encoders written from `docs/specs` (`specFile`, `specFileV01`, `specFileV00`) sit in `Model/SpecEnc.lean` so that the driver can run them (`spec_file`). Everything is audited alike (`collectAxioms` is transitive).

### 0.2 Trusted base (as built)

* Lean 4.33.0 kernel; axioms `propext`, `Classical.choice`, `Quot.sound` only (audited per theorem, every run). No `sorry`, `admit`,
  own axioms, `native_decide`, `bv_decide`, `implemented_by`.
* Mathlib is imported **only** in `Props/C13, C14, C15, C17` (and through C17 in `Props/C09Repr`) (single modules: `Algebra.Order.Field.Basic`, `Algebra.Order.Floor.Semiring`, `Analysis.Real.Sqrt`,
  `Tactic.Ring/FieldSimp/Linarith/NormNum`); all `Model/` files are Mathlib-free and compile into the driver.
* The compiled driver (Lean compiler + runtime, host `Float` arithmetic) — used for the correspondence only.
* The hand-written correspondence harness (generators, adapters, canonicalisation, tolerance constants named in each evidence file's
  `assumptions`). It is differential testing: what it did not generate it did not compare.
* Modelled, not verified: CPython `struct` / UTF-8 / `BytesIO`; `numpy` incl. **`numpy.ma` semantics**; torch / tensorflow primitives;
  scipy `interp1d` (quadratic, cubic), `Rotation.from_euler`, numpy `arctan2`/`cross`/`einsum`; md5 as injective; the GIL making one
  source line atomic; the `binary-parser` stand-in (`harness/js/node_modules/binary-parser`); Node's `stripTypeScriptTypes`.
* The reading of each property's domain, recorded as `ASSUMPTIONS` in each `harness/props/cXX.py` and copied into the evidence.

### 0.3 Repairs made to `/repo` (each one minimal `fix:` commit; the 128 baseline tests pass after each)

| id | property | commit | what failed |
|----|----------|--------|-------------|
| F1 | C01/C02 | ad53445 | string lengths written in characters, not UTF-8 bytes |
| F2 | C03/C07 | f455d9d | `BytesIOReader.read_chunk` did not continue from the file offset following the buffer |
| F2b | C03 | 39b1843 | a window bound of 0 (falsy) chose the whole-file reader |
| F3 | C04 | cfafa43 | v0.1 frame count derived from the bytes buffered so far (stream reader) |
| F4a/F4b | C06 | dadcbb3, b782ad8 | the header cache handed out its own object; `Pose.copy()` shared the header |
| F11 | C18 | 8885dfd | unsynchronised check-then-use of the process-global header cache |
| F8 | C09 | 466c0bf | `zero_filled` multiplied by the mask (NaN / ±inf leaked), torch and tf |
| F5 | C10 | 16f94ea | `MaskedTorch.unsqueeze` left the mask unreshaped |
| F13 | C20 | 5798fe0 | `pad_tensors` shortcut when only the longest example has length 1 |
| F6 | C08 | 1cd4276 | tf mask stacked `* 2` regardless of the number of dimensions |
| F7 | C08 | 5a2759f | torch / tf `confidence > 0` vs numpy `== 0` |
| F9 | C16 | 0725245 | tf dropout kept `round(n·p)` frames and never the last one |
| F12 | C19 | 09c5b92 | `load_openpose` truncated the frame rate with `int()` |
| F14 | C15 | 78e2a45 | `bbox` raised on every 3-D pose (mask split at `[-1]`) |
| F15 | C14 | 27e4acd | `interpolate` placed an observation at new step 0 when no resampled instant lies at or after it (found by the C14 check itself) |
| F10 | C17 | 4c72ab8 | torch `PointsRepresentation` used `.view` on a transposed tensor: raised for batch or length > 1 |
| F16 | C19 | 830b739 | `load_openpose` advanced the keypoint index by the number of triples it found, so an empty (undetected) hand / face list shifted every later component (found after a sub-agent's remark, reproduced by the strengthened C19 check) |
| F17 | C16 | c66bd7c | `TensorflowPoseBody.select_frames([])` raised (`tf.gather` infers float32 for an empty Python list) where the NumPy and torch bodies return the pose of no frames (found when seeded fault C16-h made the C16 generator ask for the empty request) |

Each is recorded as `kind: fixed` in `known_findings.json` (suppresses nothing: the check passes on the repaired tree and reports the violation
again if it returns — verified for F8 by reverting the commit in the working tree: C09 reports it).

### 0.4 Known findings (genuine defects recorded, not repaired; `known_findings.json`, witnesses under `replays/known/`)

| id | property | signature (what must match for `KNOWN-FINDING`) | why not repaired |
|----|----------|--------------------------------------------------|------------------|
| K1 | C10 | `op = matmul ∧ matrix not square` | the validity rule of a contraction is a design decision; all in-tree callers pass square matrices |
| K2 | C13 | clause "output changes when the input is rotated" | `rotate_to_normal` uses the non-unit basis `y = x₀ × z`, `x = z × y`; orthonormalising changes every output incl. the committed golden fixtures. Proved false of the model too (`not_rotation_invariant`, exact witness −1/15 vs −1/25) |
| K3 | C13 | clause "plane points not at z = 0" ∧ `line.p1 ∉ plane` | the two postconditions cannot both hold then; which one wins is a design decision. `plane_at_z0_partial` proves the clause under `line.p1 ∈ plane` |
| K4 | C09 | `op = normalize_3d` ∧ the two runs differ only in frames / people whose plane or line reference point is missing | masking such frames changes the missing pattern while `normalize_component_3d` keeps the confidences: the consistent repair touches the callers |
| K5 | C08 | missing patterns differ only at points whose stored confidence is a binary32 subnormal, tensorflow body | tensorflow's CPU kernels flush subnormals to zero, so `confidence != 0` is False for 1.4e-45 on that backend only; the comparison lives in the runtime, a bit-pattern test would cover float32 only and leave every later tensorflow operation on the value flushed |

Every one of them is exercised by a fixed witness case on every run, so the `KNOWN-FINDING:` line is printed on the unchanged tree; a
violation of the same property with another signature (e.g. `normalize_3d` differences in frames whose reference points *are* observed, or plane
points off z = 0 with `line.p1 ∈ plane`) is still reported.

### 0.5 Seeded faults (mutation testing by sub-agents) — which check catches which change

Each sub-agent received only the text of one property and its own scratch git worktree of `/repo` under `/tmp`, nothing from `/verif`, and was asked
for a small change that breaks the property, compiles, keeps the 128 passing tests passing and needs something specific to manifest, with a
demonstration. Each change was confirmed here (demo passes on the clean tree, fails with the patch, no passing test lost — `tools/seed_verify.py`)
and is kept as `seeded/<id>/{patch.diff, demo.py, notes.md, meta.json}`; none was ever committed to `/repo` (applied with `git apply`, checks run,
`git checkout -- .`, or — from round 5 on — the checks were pointed at the scratch worktree itself with `POSE_REPO`, so `/repo` was not touched at all). 257 faults: two per property in a first round, two per property in a second round (ids `-c`, `-d`; C05 one), two per property in a third round (ids `-e`, `-f`; C02 one) and two more for the seven properties with the most misses so far in a fourth round (ids `-g`, `-h`: C02, C05, C06, C07, C09, C12, C17) two for each of the other thirteen properties in a fifth round (ids `-g`, `-h`) two for every property in a sixth round (ids `-i`, `-j`) and two for each of the twelve properties with a miss in the sixth in a seventh round (ids `-k`, `-l`) and two for each of the nine with a miss in the seventh in an eighth and a ninth round (ids `-m`, `-n`; `-o`, `-p`), in which (from the fourth round on) the sub-agents were
additionally told which code sites (function names only) had been used before (two faults were discarded as re-discoveries of stored ones: C05-d = C01-d, C02-f = C01-a; two stored C19 patches were rebased by hand, mechanism unchanged, when the F16 repair touched the same loop; one round-7 fault, a tensorflow `fix_nan` that drops the mask, was discarded because it makes an existing test fail every time, against the sub-agent's report). **No request was refused** by the permission system or a safety layer at any step.

SEEDTABLE

Ninety-four faults were missed on the first run by the check of their own property (bold above; 13 of the 26 of round 5, 15 of the 40 of round 6, 12 of the 23 of round 7, 12 of the 18 of round 8, 9 of the 18 of round 9 — the later rounds were aimed at the properties that had just missed, and the sub-agents were told every code site used before): in eighty-eight cases the generator did not reach the specific
trigger (in C17-f and C20-g: the harness never used the same input object twice; in C10-g: it never looked at an operand again after the operation), in one (C18-h) the sampled double preemptions missed the two precise points and the harness's cooperative lock ignored `blocking=False`, in one (C09-i) the harness itself ran the library under `np.errstate(all="ignore")`, in two (C12-o: the read-back cleared the header cache first; C10-p: an overflow tolerance that worked in both directions) the harness was too forgiving, in one (C01-l) the fault was reached but an unguarded call let the exception end the run as an infrastructure error (exceptions escaping from the library are violations now, in every check), in one (C05-c) the faulty reader crashed the node process and the check called that an infrastructure error, and in one (C18-c) the check stopped observing when the
concurrent reads had returned, so a cache left inconsistent was never read again. The checks were strengthened (last column) and all 257 are now detected by the check of their own property (`tools/reseed_parallel.py` on all 198 of rounds 1–6 with `VERIF_SEED` 0 and 7, on all 221 after round 7 on all 239 after round 8 (seeds 0 and 4) and on all 257 after round 9 (seed 0, and seed 2 after the last corrections of the thorough run)); full regressions at other seeds showed two faults detected only by
luck of the draw — C14-c at seed 3 (C14 now starts with a systematic sweep of frame count × index of the first / last observation) and C03-c at seed 5 (C03 now sweeps every frame boundary in
milliseconds, one below and one above, at 29.97, 12.5, 25 and 1.5 fps). Three more (C09-f, C19-e, C08-e) stopped being detected at seed 0 when round 5 extended a shared generator (the random streams shifted); each got planned cases that run on every seed. Round 5 also exposed one more genuine defect of the unchanged tree (F17).
What the misses had in common (none was an oracle that accepted a wrong answer; every one was an input the harness never produced): (1) **values and shapes** the
generators did not reach — non-ASCII names beyond one code point, negative / tiny confidences, rates that are not multiples of 0.01, geometry at another scale, headers above the
10 KiB prefetch, zero-frame files, non-contiguous arrays, limb ≠ colour counts, a BOM at the start of a name, matrices with a zero column, NaN under the mask, extents beyond 65 535 and below 0.001, the empty request, binary64 bodies, integer frame rates, data with a large mean, grid-aligned geometry, slices with negative bounds; (2) **state and history** — a header-cache entry left by an earlier read, an in-place edit of a
result before the next read, the same input object used twice, an array that did not come out of the constructor, a read *after* the concurrent ones, the operand *after* the operation, the same examples collated twice, a result edited in place before the next read, a Pose whose body was replaced, a mask set after construction, two layouts of one format in one process, the second write / normalisation / focus of the same object; (3) **the same path through
another class** — torch / tensorflow bodies on truncated or windowed reads and on selections by name, plain tensors where masked ones are usual, the named method next to the operator, the directory loader next to the dictionary loader (with its own arguments); (4) **compositions** — bbox → selection → bbox,
interpolate → torch → selection, rejoin → zero_filled. Each strengthening is recorded in the last column and stays in the check; the stored faults are the regression corpus.

`tools/reseed_all.py` re-applies every stored fault to `/repo` in turn and re-runs its check (regression of the mutation corpus); `tools/reseed_parallel.py -j N` does the same on
scratch worktrees of `/repo` under `/tmp` — `./check` verifies the tree named by `POSE_REPO` (default `/repo`), which is what lets N faults be checked at once without any of them
ever touching `/repo`; its evidence goes to a scratch directory (`VERIF_EVIDENCE_DIR`). The registered commands of MANIFEST.json use neither variable.

### 0.6 What the tooling could not do

* The properties about float behaviour (C13–C15, C17 formulas) are proved over ℝ / ordered fields; Lean's `Float` is opaque to the kernel except
  for a handful of operations, so rounding, overflow and `acos(1 + ε)` are decided by the harness only (named per property above).
* scipy's spline construction and `Rotation.from_euler`, `numpy.ma` itself, torch and tensorflow are not modelled below their documented meaning.
* `tf.matmul` on `(F > 1, 1, N, D)` aborts the interpreter in this sandbox: tensorflow runs in child processes and those shapes are avoided.
* mediapipe is not installed: the Holistic-shaped header of C11 is rebuilt from the name tables in `utils/holistic.py` (read with `ast`).

'''
seed=open('/verif/notes/seeded-log.md').read()
table=seed[seed.index("| seed |"):].strip()
asbuilt=asbuilt.replace("SEEDTABLE", table)
marker="---------------------------------------------------------------------------\n\n## 1. Approach"
assert marker in s
if "## 0. As built" in s:
    i=s.index("\n---------------------------------------------------------------------------\n\n## 0. As built"); j=s.index(marker)
    s=s[:i]+"\n"+s[j:]
s=s.replace(marker, asbuilt.lstrip("\n")+marker,1)
open(p,'w').write(s)
