"""Regression of the mutation corpus, in parallel: every stored seeded fault is applied to a scratch worktree of /repo (never to /repo itself), the quick check of its own
property is run against that worktree (POSE_REPO), and the worktree is restored. usage: python3 tools/reseed_parallel.py [-j N] [ids…]; VERIF_SEED is passed through.
Exit 1 if a fault is no longer detected. Evidence of these runs goes to a scratch directory, /verif/evidence is not touched."""
import glob, os, subprocess, sys, concurrent.futures as cf
V = "/verif"
args = sys.argv[1:]
J = 6
if args and args[0] == "-j":
    J = int(args[1]); args = args[2:]
ids = args or sorted(os.path.basename(os.path.dirname(p)) for p in glob.glob(V + "/seeded/*/patch.diff"))
sh = lambda cmd, **kw: subprocess.run(cmd, shell=True, capture_output=True, text=True, **kw)
subprocess.run(["lake", "build"], cwd=V + "/lean", capture_output=True)          # build once, so that the workers' builds are no-ops
work = []
for k in range(J):
    wt = f"/tmp/rs-wt-{k}"
    sh(f"git -C /repo worktree remove --force {wt}"); sh(f"rm -rf {wt}")
    r = sh(f"git -C /repo worktree add --detach {wt} HEAD")
    assert r.returncode == 0, r.stderr
    work.append(wt)


def one(job):
    k, sid = job
    wt = work[k]
    prop = sid.split("-")[0]
    patch = f"{V}/seeded/{sid}/patch.diff"
    a = sh(f"git apply {patch}", cwd=wt)
    if a.returncode != 0:
        a = sh(f"patch -p1 -F3 --no-backup-if-mismatch < {patch}", cwd=wt)
    if a.returncode != 0:
        return sid, "PATCH DOES NOT APPLY"
    try:
        env = dict(os.environ, POSE_REPO=wt, VERIF_EVIDENCE_DIR=f"/tmp/rs-evidence-{k}")
        r = subprocess.run([V + "/check", prop], capture_output=True, text=True, cwd=V, timeout=5400, env=env)
        hit = any(l.startswith("VIOLATION") for l in r.stdout.splitlines())
        infra = r.returncode == 2
    finally:
        sh("git reset -q; git checkout HEAD -- .; find src -name '*.rej' -delete -o -name '*.orig' -delete", cwd=wt)
    return sid, ("detected" if hit else ("INFRA-ERROR" if infra else "MISSED"))


# one queue per worker so that a worktree is never used by two jobs at once
queues = [[] for _ in range(J)]
for i, sid in enumerate(ids):
    queues[i % J].append(sid)


def worker(k):
    return [one((k, sid)) for sid in queues[k]]


missed = []
with cf.ThreadPoolExecutor(J) as ex:
    for res in ex.map(worker, range(J)):
        for sid, what in res:
            print(sid, what, flush=True)
            if what != "detected":
                missed.append(sid)
for wt in work:
    sh(f"git -C /repo worktree remove --force {wt}")
sh("git -C /repo worktree prune; rm -rf /tmp/rs-evidence-*")
print("missed:", missed)
sys.exit(1 if missed else 0)
